import Tumfl.Theory.ReadSimDefs
/-!
# Readings of the leaf pieces (keywords, symbols, operators, names, strings, numerals, comments)
-/
namespace Tumfl.Theory
open Tumfl.Model

variable {sty : Style} {K : List Spec.Tok → Prop} {r : Pieces}

theorem AllRd.imp {ps : Pieces} {K K' : List Spec.Tok → Prop} (h : AllRd ps K) (hk : ∀ t, K t → K' t) : AllRd ps K' :=
  fun t ht => hk t (h t ht)

@[simp] theorem AllRd_nil_kw : AllRd (P "nil" :: r) K ↔ AllRd r fun t => K (mkTok (.kw "nil") :: t) := AllRd_P (by decide)
@[simp] theorem AllRd_true_kw : AllRd (P "true" :: r) K ↔ AllRd r fun t => K (mkTok (.kw "true") :: t) := AllRd_P (by decide)
@[simp] theorem AllRd_false_kw : AllRd (P "false" :: r) K ↔ AllRd r fun t => K (mkTok (.kw "false") :: t) := AllRd_P (by decide)
@[simp] theorem AllRd_function_kw : AllRd (P "function" :: r) K ↔ AllRd r fun t => K (mkTok (.kw "function") :: t) := AllRd_P (by decide)
@[simp] theorem AllRd_do_kw : AllRd (P "do" :: r) K ↔ AllRd r fun t => K (mkTok (.kw "do") :: t) := AllRd_P (by decide)
@[simp] theorem AllRd_end_kw : AllRd (P "end" :: r) K ↔ AllRd r fun t => K (mkTok (.kw "end") :: t) := AllRd_P (by decide)
@[simp] theorem AllRd_return_kw : AllRd (P "return" :: r) K ↔ AllRd r fun t => K (mkTok (.kw "return") :: t) := AllRd_P (by decide)
@[simp] theorem AllRd_break_kw : AllRd (P "break" :: r) K ↔ AllRd r fun t => K (mkTok (.kw "break") :: t) := AllRd_P (by decide)
@[simp] theorem AllRd_goto_kw : AllRd (P "goto" :: r) K ↔ AllRd r fun t => K (mkTok (.kw "goto") :: t) := AllRd_P (by decide)
@[simp] theorem AllRd_if_kw : AllRd (P "if" :: r) K ↔ AllRd r fun t => K (mkTok (.kw "if") :: t) := AllRd_P (by decide)
@[simp] theorem AllRd_then_kw : AllRd (P "then" :: r) K ↔ AllRd r fun t => K (mkTok (.kw "then") :: t) := AllRd_P (by decide)
@[simp] theorem AllRd_else_kw : AllRd (P "else" :: r) K ↔ AllRd r fun t => K (mkTok (.kw "else") :: t) := AllRd_P (by decide)
@[simp] theorem AllRd_elseif_kw : AllRd (P "elseif" :: r) K ↔ AllRd r fun t => K (mkTok (.kw "elseif") :: t) := AllRd_P (by decide)
@[simp] theorem AllRd_for_kw : AllRd (P "for" :: r) K ↔ AllRd r fun t => K (mkTok (.kw "for") :: t) := AllRd_P (by decide)
@[simp] theorem AllRd_in_kw : AllRd (P "in" :: r) K ↔ AllRd r fun t => K (mkTok (.kw "in") :: t) := AllRd_P (by decide)
@[simp] theorem AllRd_local_kw : AllRd (P "local" :: r) K ↔ AllRd r fun t => K (mkTok (.kw "local") :: t) := AllRd_P (by decide)
@[simp] theorem AllRd_repeat_kw : AllRd (P "repeat" :: r) K ↔ AllRd r fun t => K (mkTok (.kw "repeat") :: t) := AllRd_P (by decide)
@[simp] theorem AllRd_until_kw : AllRd (P "until" :: r) K ↔ AllRd r fun t => K (mkTok (.kw "until") :: t) := AllRd_P (by decide)
@[simp] theorem AllRd_while_kw : AllRd (P "while" :: r) K ↔ AllRd r fun t => K (mkTok (.kw "while") :: t) := AllRd_P (by decide)
@[simp] theorem AllRd_lpar : AllRd (P "(" :: r) K ↔ AllRd r fun t => K (mkTok (.sym "(") :: t) := AllRd_P (by decide)
@[simp] theorem AllRd_rpar : AllRd (P ")" :: r) K ↔ AllRd r fun t => K (mkTok (.sym ")") :: t) := AllRd_P (by decide)
@[simp] theorem AllRd_lcurl : AllRd (P "{" :: r) K ↔ AllRd r fun t => K (mkTok (.sym "{") :: t) := AllRd_P (by decide)
@[simp] theorem AllRd_rcurl : AllRd (P "}" :: r) K ↔ AllRd r fun t => K (mkTok (.sym "}") :: t) := AllRd_P (by decide)
@[simp] theorem AllRd_lbrack : AllRd (P "[" :: r) K ↔ AllRd r fun t => K (mkTok (.sym "[") :: t) := AllRd_P (by decide)
@[simp] theorem AllRd_rbrack : AllRd (P "]" :: r) K ↔ AllRd r fun t => K (mkTok (.sym "]") :: t) := AllRd_P (by decide)
@[simp] theorem AllRd_assign : AllRd (P "=" :: r) K ↔ AllRd r fun t => K (mkTok (.sym "=") :: t) := AllRd_P (by decide)
@[simp] theorem AllRd_colon : AllRd (P ":" :: r) K ↔ AllRd r fun t => K (mkTok (.sym ":") :: t) := AllRd_P (by decide)
@[simp] theorem AllRd_dcolon : AllRd (P "::" :: r) K ↔ AllRd r fun t => K (mkTok (.sym "::") :: t) := AllRd_P (by decide)
@[simp] theorem AllRd_semi : AllRd (P ";" :: r) K ↔ AllRd r fun t => K (mkTok (.sym ";") :: t) := AllRd_P (by decide)
@[simp] theorem AllRd_lt : AllRd (P "<" :: r) K ↔ AllRd r fun t => K (mkTok (.sym "<") :: t) := AllRd_P (by decide)
@[simp] theorem AllRd_gt : AllRd (P ">" :: r) K ↔ AllRd r fun t => K (mkTok (.sym ">") :: t) := AllRd_P (by decide)
@[simp] theorem AllRd_ellipsis : AllRd (P "..." :: r) K ↔ AllRd r fun t => K (mkTok (.sym "...") :: t) := AllRd_P (by decide)

@[simp] theorem AllRd_wrapParens {ps : Pieces} :
    AllRd (wrapParens ps) K ↔ AllRd ps fun t => K (mkTok (.sym "(") :: (t ++ [mkTok (.sym ")")])) := by
  simp only [wrapParens, AllRd_lpar, AllRd_append, AllRd_rpar, AllRd_nil, List.cons_append]

@[simp] theorem AllRd_bop (o : Spec.BOp) : AllRd (.str o.sym.toList :: r) K ↔ AllRd r fun t => K (mkTok (bopTk o) :: t) := by
  rw [AllRd_str, strTk_bop]; rfl

theorem AllRd_uop (u : Spec.UOp) : AllRd (.str u.sym.toList :: r) K ↔ AllRd r fun t => K (mkTok (uopTk u) :: t) := by
  rw [AllRd_str, strTk_uop]; rfl

theorem AllRd_ident {n : List Char} (h : identOK n = true) :
    AllRd (.str n :: r) K ↔ AllRd r fun t => K (mkTok (.name (String.ofList n)) :: t) := by
  rw [AllRd_str, strTk_ident h]; rfl

theorem AllRd_nameNode (sty : Style) {e : Expr} (h : nameNodeOK e = true) :
    AllRd (visitExpr sty e ++ r) K ↔ AllRd r fun t => K (mkTok (.name (nameS e)) :: t) := by
  obtain ⟨t, n, rfl, hn⟩ := nameNodeOK_iff h
  simp only [visitExpr, List.cons_append, List.nil_append, AllRd_ident hn, nameS, nameStr]

theorem AllRd_nameNode' (sty : Style) {e : Expr} (h : nameNodeOK e = true) :
    AllRd (visitExpr sty e) K ↔ K [mkTok (.name (nameS e))] := by
  have := AllRd_nameNode (K := K) (r := []) sty h
  simpa [AllRd_nil] using this

theorem AllRd_nameStr {e : Expr} (h : nameNodeOK e = true) :
    AllRd (.str (nameStr e) :: r) K ↔ AllRd r fun t => K (mkTok (.name (nameS e)) :: t) := by
  obtain ⟨t, n, rfl, hn⟩ := nameNodeOK_iff h
  simp only [nameStr, AllRd_ident hn, nameS]

theorem AllRd_visitString (sty : Style) (v : List Char) :
    AllRd (visitString sty v ++ r) K ↔ AllRd r fun t => K (mkTok (.str (v.map fun c => Spec.SUnit.ch c.toNat)) :: t) := by
  rcases Props.C06_forms sty v with ⟨q, hq, h⟩ | h
  · rw [h]
    have := strTk_quoted q hq v
    simp only [List.cons_append] at this
    simp only [List.cons_append, List.nil_append, AllRd_str, this]; rfl
  · rw [h]
    have := strTk_long v
    simp only [List.cons_append, List.append_assoc, List.nil_append] at this ⊢
    simp only [AllRd_str, this]; rfl

theorem AllRd_number {n : NumTuple} (h : numOKp n = true) :
    AllRd (.str (numberStr n) :: r) K ↔
      AllRd r fun t => K (mkTok (.num ((Spec.parseNumeral (numberStr n)).getD default)) :: t) := by
  obtain ⟨m, hp, _, hs⟩ := strTk_number h
  rw [AllRd_str, hs, hp]; rfl

@[simp] theorem AllRd_fmtKey {ps : Pieces} : AllRd (fmtKey ps) K ↔ AllRd ps K := by
  unfold fmtKey
  split
  · split
    · simp only [AllRd_space]
    · rfl
  · rfl

/-! ## comments -/

/-- a list of `;` tokens -/
def Semis (ts : List Spec.Tok) : Prop := ∀ t ∈ ts, t = mkTok (.sym ";")

theorem Semis_nil : Semis [] := by intro t h; cases h
theorem Semis.append {a b : List Spec.Tok} (ha : Semis a) (hb : Semis b) : Semis (a ++ b) := by
  intro t h
  rcases List.mem_append.mp h with h | h
  · exact ha t h
  · exact hb t h
theorem SemiOpt.semis {s : List Spec.Tok} (h : SemiOpt s) : Semis s := by
  rcases h with rfl | rfl
  · exact Semis_nil
  · intro t ht; simpa using ht
theorem Semis.eq_replicate {ts : List Spec.Tok} (h : Semis ts) : ts = List.replicate ts.length (mkTok (.sym ";")) :=
  List.eq_replicate_iff.mpr ⟨rfl, h⟩

theorem strTk_of_dashes {x : List Char} (h : startsWith x ['-', '-'] = true) : strTk x = [] := by
  unfold strTk; simp [h]

theorem Rd_formatComment (sty : Style) (c : List Char) : AllRd (formatComment sty c) Semis := by
  unfold formatComment
  simp only
  split
  · simp only [AllRd_str, AllRd_statement, AllRd_nil]
    intro s hs
    rw [strTk_of_dashes (by simp [startsWith, isPrefix])]
    simpa using hs.semis
  · simp only [AllRd_str, AllRd_newline, AllRd_nil]
    rw [strTk_of_dashes (by simp [startsWith, isPrefix])]
    simpa using Semis_nil

theorem Rd_stmtCommentPieces (sty : Style) (s : Stmt) : AllRd (stmtCommentPieces sty s) Semis := by
  unfold stmtCommentPieces
  split
  · generalize stmtComments s = cs
    induction cs with
    | nil => simpa [AllRd_nil] using Semis_nil
    | cons c cs ih =>
      simp only [List.flatMap_cons, AllRd_append]
      intro ta ha tb hb
      exact (Rd_formatComment sty c ta ha).append (ih tb hb)
  · simpa [AllRd_nil] using Semis_nil

end Tumfl.Theory
