import Tumfl.Theory.TreeReplace
/-!
# The edges of `allEdges` are exactly the paths that `GT.get?` can read

`mem_childPaths_allEdges`: the child paths among the edges of a tree are exactly the non-root paths at which `get?`
finds a subtree.  So the "proper tree" statements of `Theory/Tree.lean` (each child path linked exactly once) speak
about exactly the nodes addressed by `GT.get?` / `GT.replaceAt`.
-/
namespace Tumfl.Theory
open Tumfl.Model Tumfl.Inst

mutual
theorem mem_allEdges_iff (here : NodePath) (t : GT) (q : NodePath) :
    q ∈ childPaths (allEdges here t) ↔ ∃ r, r ≠ [] ∧ (t.get? r).isSome = true ∧ q = here ++ r := by
  match t with
  | .mk c a kids =>
    simp only [allEdges]
    rw [mem_edgesSlots_iff here 0 kids q]
    constructor
    · rintro ⟨k, j, r, n, ts, ch, hk, ht, hc, rfl⟩
      refine ⟨(k, j) :: r, by simp, ?_, by simp⟩
      rw [get?_cons_of hk ht]; exact hc
    · rintro ⟨r, hr, hs, rfl⟩
      match r with
      | [] => exact absurd rfl hr
      | (k, j) :: r =>
        obtain ⟨x, hx⟩ := Option.isSome_iff_exists.mp hs
        obtain ⟨n, ts, ch, hk, ht, hc⟩ := get?_cons_some hx
        exact ⟨k, j, r, n, ts, ch, hk, ht, by rw [hc]; rfl, by simp⟩
theorem mem_edgesSlots_iff (here : NodePath) (i : Nat) (kids : List (String × List GT)) (q : NodePath) :
    q ∈ childPaths (edgesSlots here i kids) ↔
      ∃ k j r n ts ch, kids[k]? = some (n, ts) ∧ ts[j]? = some ch ∧ (ch.get? r).isSome = true ∧
        q = here ++ (i + k, j) :: r := by
  match kids with
  | [] => simp [edgesSlots]
  | (n, ts) :: rest =>
    simp only [edgesSlots, childPaths, List.map_append, List.mem_append]
    have h1 := mem_edgesList_iff here i 0 ts q
    have h2 := mem_edgesSlots_iff here (i + 1) rest q
    simp only [childPaths] at h1 h2
    rw [h1, h2]
    constructor
    · rintro (⟨k, r, ch, ht, hc, rfl⟩ | ⟨k, j, r, n', ts', ch, hk, ht, hc, rfl⟩)
      · exact ⟨0, k, r, n, ts, ch, by simp, ht, hc, by simp⟩
      · exact ⟨k + 1, j, r, n', ts', ch, by simpa using hk, ht, hc, by
          simp only [List.append_cancel_left_eq, List.cons.injEq, Prod.mk.injEq, and_true]; omega⟩
    · rintro ⟨k, j, r, n', ts', ch, hk, ht, hc, rfl⟩
      match k with
      | 0 =>
        simp only [List.getElem?_cons_zero, Option.some.injEq, Prod.mk.injEq] at hk
        obtain ⟨rfl, rfl⟩ := hk
        exact Or.inl ⟨j, r, ch, ht, hc, by simp⟩
      | k + 1 =>
        exact Or.inr ⟨k, j, r, n', ts', ch, by simpa using hk, ht, hc, by
          simp only [List.append_cancel_left_eq, List.cons.injEq, Prod.mk.injEq, and_true]; omega⟩
theorem mem_edgesList_iff (here : NodePath) (i j : Nat) (ts : List GT) (q : NodePath) :
    q ∈ childPaths (edgesList here i j ts) ↔
      ∃ k r ch, ts[k]? = some ch ∧ (ch.get? r).isSome = true ∧ q = here ++ (i, j + k) :: r := by
  match ts with
  | [] => simp [edgesList]
  | t :: rest =>
    simp only [edgesList, childPaths, List.map_cons, List.map_append, List.mem_cons, List.mem_append]
    have h1 := mem_allEdges_iff (here ++ [(i, j)]) t q
    have h2 := mem_edgesList_iff here i (j + 1) rest q
    simp only [childPaths] at h1 h2
    rw [h1, h2]
    constructor
    · rintro ((rfl | ⟨r, hr, hs, rfl⟩) | ⟨k, r, ch, ht, hc, rfl⟩)
      · exact ⟨0, [], t, by simp, by simp, by simp⟩
      · exact ⟨0, r, t, by simp, hs, by simp⟩
      · exact ⟨k + 1, r, ch, by simpa using ht, hc, by
          simp only [List.append_cancel_left_eq, List.cons.injEq, Prod.mk.injEq, true_and, and_true]; omega⟩
    · rintro ⟨k, r, ch, ht, hc, rfl⟩
      match k with
      | 0 =>
        simp only [List.getElem?_cons_zero, Option.some.injEq] at ht
        subst ht
        match r with
        | [] => exact Or.inl (Or.inl (by simp))
        | x :: r => exact Or.inl (Or.inr ⟨x :: r, by simp, hc, by simp⟩)
      | k + 1 =>
        exact Or.inr ⟨k, r, ch, by simpa using ht, hc, by
          simp only [List.append_cancel_left_eq, List.cons.injEq, Prod.mk.injEq, true_and, and_true]; omega⟩
end

/-- the linked nodes are exactly the non-root nodes that `get?` can address -/
theorem mem_childPaths_allEdges (t : GT) (q : NodePath) :
    q ∈ childPaths (allEdges [] t) ↔ q ≠ [] ∧ (t.get? q).isSome = true := by
  rw [mem_allEdges_iff]
  constructor
  · rintro ⟨r, hr, hs, rfl⟩; exact ⟨by simpa using hr, by simpa using hs⟩
  · rintro ⟨h1, h2⟩; exact ⟨q, h1, h2, by simp⟩

/-- after any finite sequence of replacements by well-typed subtrees, `parent()` links exactly the non-root nodes of
the NEW tree (those `get?` can address), each of them once, and the walker visits exactly those, each once -/
theorem replaceAll_links_exact (t : GT) (rs : List (NodePath × GT))
    (ht : wellTyped t = true) (hr : ∀ r ∈ rs, wellTyped r.2 = true) (q : NodePath) :
    let t' := t.replaceAll rs
    (q ∈ childPaths (links scanOf [] t') ↔ q ≠ [] ∧ (t'.get? q).isSome = true) ∧
    (q ∈ childPaths (links walkOf [] t') ↔ q ≠ [] ∧ (t'.get? q).isSome = true) ∧
    (childPaths (links scanOf [] t')).Nodup ∧ (childPaths (links walkOf [] t')).Nodup := by
  intro t'
  obtain ⟨_, ⟨h1, h2, _⟩, h3, h4⟩ := replaceAll_proper_tree t rs ht hr
  refine ⟨?_, ?_, h2, h4⟩
  · rw [h1]; exact mem_childPaths_allEdges t' q
  · rw [h3]; exact mem_childPaths_allEdges t' q

end Tumfl.Theory
