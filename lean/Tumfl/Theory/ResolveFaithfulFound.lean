import Tumfl.Theory.ResolveFaithfulFoundDefs
import Tumfl.Theory.ResolveFaithful
import Tumfl.Theory.ResolveFaithfulDet
import Tumfl.Theory.ResolveFaithfulForget
/-!
# The deduplication clause over the whole tree

`resolve_faithfulF_all`: every successful run of a `resolve*` function relates input, output and the `found` table before and
after by the threaded relation `Inl*F`; `resolve_faithfulF` is the whole-program corollary (the table starts empty).
-/
namespace Tumfl.Theory
open Tumfl.Model

theorem getDependencyPath_false_ok {fs : FS} {sp : List Path} {name : List Char} {dir : Path} {t : Token}
    {st st' : RSt} {o : Option Path} (h : getDependencyPath fs sp name dir t false st = .ok (o, st')) :
    ∃ p, findFileInPath fs sp name dir = some p ∧ o = some p ∧ st'.found = addFound st.found p := by
  obtain ⟨p, hp, hc | hc | hc⟩ := getDependencyPath_ok h
  · exact absurd hc.1 (by simp)
  · obtain ⟨_, hin, rfl, rfl⟩ := hc
    exact ⟨p, hp, rfl, by simp only [addFound, hin, if_true]⟩
  · obtain ⟨hnin, rfl, rfl⟩ := hc
    exact ⟨p, hp, rfl, by simp only [addFound, hnin, Bool.false_eq_true, if_false]⟩

theorem getDependencyPath_true_ok {fs : FS} {sp : List Path} {name : List Char} {dir : Path} {t : Token}
    {st st' : RSt} {o : Option Path} (h : getDependencyPath fs sp name dir t true st = .ok (o, st')) :
    ∃ p, findFileInPath fs sp name dir = some p ∧
      ((o = none ∧ p ∈ st.found ∧ st' = st) ∨ (o = some p ∧ p ∉ st.found ∧ st'.found = st.found ++ [p])) := by
  obtain ⟨p, hp, hc | hc | hc⟩ := getDependencyPath_ok h
  · obtain ⟨_, hin, rfl, rfl⟩ := hc
    exact ⟨p, hp, Or.inl ⟨rfl, by simpa using hin, rfl⟩⟩
  · exact absurd hc.1 (by simp)
  · obtain ⟨hnin, rfl, rfl⟩ := hc
    refine ⟨p, hp, Or.inr ⟨rfl, ?_, rfl⟩⟩
    intro hmem
    have : st.found.contains p = true := by simpa using hmem
    rw [hnin] at this; cases this

set_option hygiene false in
macro "inlf_fwd" : tactic => `(tactic|
  repeat (
    obtain ⟨_, _, h1, h⟩ := rbind_ok h
    first | replace h1 := ihE _ _ _ _ _ h1 | replace h1 := ihEs _ _ _ _ _ h1 | replace h1 := ihFs _ _ _ _ _ h1
          | replace h1 := ihB _ _ _ _ _ h1 | replace h1 := ihSs _ _ _ _ _ h1 | replace h1 := ihO _ _ _ _ _ h1
          | replace h1 := ihS _ _ _ _ _ h1 | replace h1 := ihF _ _ _ _ _ h1))

set_option hygiene false in
macro "inlf_steps" : tactic => `(tactic| (inlf_fwd; cases h; constructor <;> assumption))

/-- MAIN THEOREM with the `found` table threaded (any fuel, any initial state) -/
theorem resolve_faithfulF_all (fs : FS) (sp : List Path) : ∀ f : Nat,
    (∀ dir e e' st st', resolveExpr fs sp f dir e st = .ok (e', st') → InlExprF fs sp dir st.found e e' st'.found) ∧
    (∀ dir es es' st st', resolveExprs fs sp f dir es st = .ok (es', st') → InlExprsF fs sp dir st.found es es' st'.found) ∧
    (∀ dir fds fds' st st', resolveFields fs sp f dir fds st = .ok (fds', st') →
      InlFieldsF fs sp dir st.found fds fds' st'.found) ∧
    (∀ dir b b' st st', resolveBlock fs sp f dir b st = .ok (b', st') → InlBlockF fs sp dir st.found b b' st'.found) ∧
    (∀ dir ss ss' st st', resolveStmts fs sp f dir ss st = .ok (ss', st') → InlStmtsF fs sp dir st.found ss ss' st'.found) ∧
    (∀ dir o o' st st', resolveOptExpr fs sp f dir o st = .ok (o', st') → InlOptExprF fs sp dir st.found o o' st'.found) ∧
    (∀ dir s s' st st', resolveStmt fs sp f dir s st = .ok (s', st') → InlStmtF fs sp dir st.found s s' st'.found) ∧
    (∀ dir fl fl' st st', resolveFalse fs sp f dir fl st = .ok (fl', st') →
      InlFalseF fs sp dir st.found fl fl' st'.found) := by
  intro f
  induction f with
  | zero =>
    refine ⟨?_, ?_, ?_, ?_, ?_, ?_, ?_, ?_⟩ <;> intro dir x x' st st' h
    · rw [resolveExpr] at h; cases h
    · rw [resolveExprs] at h; cases h
    · rw [resolveFields] at h; cases h
    · rw [resolveBlock] at h; cases h
    · rw [resolveStmts] at h; cases h
    · rw [resolveOptExpr] at h; cases h
    · rw [resolveStmt] at h; cases h
    · rw [resolveFalse] at h; cases h
  | succ f ih =>
    obtain ⟨ihE, ihEs, ihFs, ihB, ihSs, ihO, ihS, ihF⟩ := ih
    refine ⟨?_, ?_, ?_, ?_, ?_, ?_, ?_, ?_⟩
    · intro dir e e' st st' h
      cases e <;> simp only [resolveExpr] at h
      all_goals try (inlf_steps; done)
      rename_i t fn args
      cases hreq : isRequireName fn
      · simp only [hreq, Bool.false_eq_true, if_false] at h
        inlf_fwd
        cases h
        exact InlExprF.call (isReqLit_of_not_name _ hreq) ‹_› ‹_›
      · simp only [hreq, if_true] at h
        split at h
        · obtain ⟨o, s1, h1, h⟩ := rbind_ok h
          obtain ⟨path, hfind, rfl, hs1⟩ := getDependencyPath_false_ok h1
          simp only at h
          obtain ⟨ast, s2, h2, h⟩ := rbind_ok h
          obtain ⟨rfl, text, x, hread, hparse⟩ := parseFile_ok h2
          obtain ⟨tk', ss, rs, c⟩ := ast
          simp only at h
          obtain ⟨body', s3, h3, h⟩ := rbind_ok h
          replace h3 := ihB _ _ _ _ _ h3
          rw [hs1] at h3
          cases h
          exact InlExprF.require hreq hfind hread hparse h3
        · cases h
    · intro dir es es' st st' h
      cases es <;> simp only [resolveExprs] at h <;> inlf_steps
    · intro dir fds fds' st st' h
      cases fds with
      | nil => simp only [resolveFields] at h; inlf_steps
      | cons fd rest =>
        simp only [resolveFields] at h
        obtain ⟨fd', s1, h1, h⟩ := rbind_ok h
        have hfd : InlFieldF fs sp dir st.found fd fd' s1.found := by
          replace h := h1
          cases fd <;> simp only at h <;> inlf_steps
        inlf_steps
    · intro dir b b' st st' h
      obtain ⟨t, ss, rs, c⟩ := b
      simp only [resolveBlock] at h
      obtain ⟨ss', s1, h1, h⟩ := rbind_ok h
      replace h1 := ihSs _ _ _ _ _ h1
      obtain ⟨rs', s2, h2, h⟩ := rbind_ok h
      have hrs : InlOptExprsF fs sp dir s1.found rs rs' s2.found := by
        replace h := h2
        cases rs <;> simp only at h <;> inlf_steps
      cases h
      exact InlBlockF.mk h1 hrs
    · intro dir ss ss' st st' h
      cases ss <;> simp only [resolveStmts] at h <;> inlf_steps
    · intro dir o o' st st' h
      cases o <;> simp only [resolveOptExpr] at h <;> inlf_steps
    · intro dir s s' st st' h
      cases s <;> simp only [resolveStmt] at h
      all_goals try (inlf_steps; done)
      · rename_i t fn args
        cases hreq : isRequireName fn
        · simp only [hreq, Bool.false_eq_true, if_false] at h
          inlf_fwd
          cases h
          exact InlStmtF.call (isReqLit_of_not_name _ hreq) ‹_› ‹_›
        · simp only [hreq, if_true] at h
          split at h
          · obtain ⟨o, s1, h1, hk⟩ := rbind_ok h
            replace h := hk
            clear hk
            obtain ⟨path, hfind, ⟨rfl, hin, rfl⟩ | ⟨rfl, hnin, hs1⟩⟩ := getDependencyPath_true_ok h1
            · simp only at h
              cases h
              exact InlStmtF.requireDedup hreq hfind hin
            · simp only at h
              obtain ⟨ast, s2, h2, h⟩ := rbind_ok h
              obtain ⟨rfl, text, x, hread, hparse⟩ := parseFile_ok h2
              obtain ⟨tk', ss, rs, c⟩ := ast
              simp only at h
              obtain ⟨chunk', s3, h3, h⟩ := rbind_ok h
              replace h3 := ihB _ _ _ _ _ h3
              rw [hs1] at h3
              cases h
              exact InlStmtF.requireInline hreq hfind hnin hread hparse h3
          · cases h
      · rename_i t ns es
        obtain ⟨es', s1, h1, h⟩ := rbind_ok h
        have hes : InlOptExprsF fs sp dir st.found es es' s1.found := by
          replace h := h1
          cases es <;> simp only at h <;> inlf_steps
        cases h
        exact InlStmtF.localAssign hes
    · intro dir fl fl' st st' h
      cases fl <;> simp only [resolveFalse] at h <;> inlf_steps

/-- WHOLE PROGRAM, with the `found` table: it starts empty (the main file itself is NOT in it) -/
theorem resolve_faithfulF {fs : FS} {main : Path} {sp : List Path} {fuel : Nat} {b' : Block}
    (h : resolveRecursive fs main sp fuel = .ok b') :
    ∃ text b x found', fs.read main = some text ∧ parseText text = .ok (b, x) ∧
      InlBlockF fs sp (dirOf main) [] b b' found' := by
  unfold resolveRecursive at h
  split at h
  · cases h
  · rename_i b1 st' heq
    cases h
    obtain ⟨b0, s0, h1, h2⟩ := rbind_ok heq
    obtain ⟨rfl, text, hs, hr, hp⟩ := parseFile_ok h1
    exact ⟨text, b0, hs, st'.found, hr, hp, (resolve_faithfulF_all fs sp fuel).2.2.2.1 _ _ _ _ _ h2⟩

/-- the threaded specification has no slack: whatever it relates the input to (under the initial table) IS the model's
result and final table -/
theorem resolveBlock_unique {fs : FS} {sp : List Path} {f : Nat} {dir : Path} {b b' b2 : Block} {st st' : RSt}
    {fd2 : List Path} (h : resolveBlock fs sp f dir b st = .ok (b', st')) (k : InlBlockF fs sp dir st.found b b2 fd2) :
    b2 = b' ∧ fd2 = st'.found :=
  InlBlockF.det k ((resolve_faithfulF_all fs sp f).2.2.2.1 _ _ _ _ _ h)

theorem resolveStmt_unique {fs : FS} {sp : List Path} {f : Nat} {dir : Path} {s s' s2 : Stmt} {st st' : RSt}
    {fd2 : List Path} (h : resolveStmt fs sp f dir s st = .ok (s', st')) (k : InlStmtF fs sp dir st.found s s2 fd2) :
    s2 = s' ∧ fd2 = st'.found :=
  InlStmtF.det k ((resolve_faithfulF_all fs sp f).2.2.2.2.2.2.1 _ _ _ _ _ h)

theorem resolveExpr_unique {fs : FS} {sp : List Path} {f : Nat} {dir : Path} {e e' e2 : Expr} {st st' : RSt}
    {fd2 : List Path} (h : resolveExpr fs sp f dir e st = .ok (e', st')) (k : InlExprF fs sp dir st.found e e2 fd2) :
    e2 = e' ∧ fd2 = st'.found :=
  InlExprF.det k ((resolve_faithfulF_all fs sp f).1 _ _ _ _ _ h)

/-- whole program: the result of `resolve_recursive` is the ONLY tree the threaded specification relates the parse of the
main file to (starting from the empty table) -/
theorem resolve_faithfulF_unique {fs : FS} {main : Path} {sp : List Path} {fuel : Nat} {b b' b2 : Block}
    {text : List Char} {x : List Hint} {fd2 : List Path}
    (h : resolveRecursive fs main sp fuel = .ok b') (hr : fs.read main = some text) (hp : parseText text = .ok (b, x))
    (k : InlBlockF fs sp (dirOf main) [] b b2 fd2) : b2 = b' := by
  obtain ⟨text', b0, x', fd', hr', hp', k'⟩ := resolve_faithfulF h
  rw [hr] at hr'; cases hr'
  rw [hp] at hp'; cases hp'
  exact (InlBlockF.det k k').1

end Tumfl.Theory
