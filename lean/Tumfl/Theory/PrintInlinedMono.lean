import Tumfl.Theory.PrintInlinedDefs
/-!
# `okBlock` is monotone in its flags: `InlinedOK b → InlinedOKFor sty b` for every style
-/
namespace Tumfl.Theory
open Tumfl.Model

theorem hidesGuard_mono {c c' : Bool} (hc : c' = true → c = true) (M : List Stmt)
    (h : hidesGuard c M = false) : hidesGuard c' M = false := by
  cases M with
  | nil => rfl
  | cons x xs =>
    cases c' with
    | false => simp [hidesGuard]
    | true => rw [hc rfl] at h; exact h

mutual
theorem okExpr_mono (k c k' c' : Bool) (hk : k' = true → k = true) (hc : c' = true → c = true) :
    (e : Expr) → okExpr k c e = true → okExpr k' c' e = true
  | .nil _, _ | .bool _ _, _ | .vararg _, _ | .number _ _, _ | .string _ _, _ | .name _ _, _ => by simp [okExpr]
  | .func _ _ body, h => by
    simp only [okExpr] at h ⊢
    exact okBlock_mono k c k' c' hk hc body h
  | .table _ fs, h => by
    simp only [okExpr] at h ⊢
    exact okFields_mono k c k' c' hk hc fs h
  | .binop _ _ l r, h => by
    simp only [okExpr, Bool.and_eq_true] at h ⊢
    exact ⟨okExpr_mono k c k' c' hk hc l h.1, okExpr_mono k c k' c' hk hc r h.2⟩
  | .unop _ _ e, h => by
    simp only [okExpr] at h ⊢
    exact okExpr_mono k c k' c' hk hc e h
  | .index _ l key, h => by
    simp only [okExpr, Bool.and_eq_true] at h ⊢
    exact ⟨okExpr_mono k c k' c' hk hc l h.1, okExpr_mono k c k' c' hk hc key h.2⟩
  | .namedIndex _ l _, h => by
    simp only [okExpr] at h ⊢
    exact okExpr_mono k c k' c' hk hc l h
  | .call _ f args, h => by
    simp only [okExpr, Bool.and_eq_true] at h ⊢
    exact ⟨okExpr_mono k c k' c' hk hc f h.1, okArgs_mono k c k' c' hk hc args h.2⟩
  | .method _ f _ args, h => by
    simp only [okExpr, Bool.and_eq_true] at h ⊢
    exact ⟨okExpr_mono k c k' c' hk hc f h.1, okArgs_mono k c k' c' hk hc args h.2⟩

theorem okArgs_mono (k c k' c' : Bool) (hk : k' = true → k = true) (hc : c' = true → c = true) :
    (es : List Expr) → okArgs k c es = true → okArgs k' c' es = true
  | [], _ => by simp [okArgs]
  | e :: rest, h => by
    simp only [okArgs, Bool.and_eq_true] at h ⊢
    exact ⟨okExpr_mono k c k' c' hk hc e h.1, okArgs_mono k c k' c' hk hc rest h.2⟩

theorem okFields_mono (k c k' c' : Bool) (hk : k' = true → k = true) (hc : c' = true → c = true) :
    (fs : List Field) → okFields k c fs = true → okFields k' c' fs = true
  | [], _ => by simp [okFields]
  | f :: rest, h => by
    simp only [okFields, Bool.and_eq_true] at h ⊢
    exact ⟨okField_mono k c k' c' hk hc f h.1, okFields_mono k c k' c' hk hc rest h.2⟩

theorem okField_mono (k c k' c' : Bool) (hk : k' = true → k = true) (hc : c' = true → c = true) :
    (f : Field) → okField k c f = true → okField k' c' f = true
  | .explicit _ key v, h => by
    simp only [okField, Bool.and_eq_true] at h ⊢
    exact ⟨okExpr_mono k c k' c' hk hc key h.1, okExpr_mono k c k' c' hk hc v h.2⟩
  | .named _ _ v, h => by
    simp only [okField] at h ⊢
    exact okExpr_mono k c k' c' hk hc v h
  | .numbered _ v, h => by
    simp only [okField] at h ⊢
    exact okExpr_mono k c k' c' hk hc v h

theorem okBlock_mono (k c k' c' : Bool) (hk : k' = true → k = true) (hc : c' = true → c = true) :
    (b : Block) → okBlock k c b = true → okBlock k' c' b = true
  | .mk _ stmts none _, h => by
    simp only [okBlock] at h ⊢
    exact okStmts_mono k c k' c' hk hc true stmts h
  | .mk _ stmts (some es) _, h => by
    simp only [okBlock, Bool.and_eq_true] at h ⊢
    exact ⟨okStmts_mono k c k' c' hk hc true stmts h.1, okArgs_mono k c k' c' hk hc es h.2⟩

theorem okStmts_mono (k c k' c' : Bool) (hk : k' = true → k = true) (hc : c' = true → c = true) :
    (first : Bool) → (ss : List Stmt) → okStmts k c first ss = true → okStmts k' c' first ss = true
  | _, [], _ => by simp [okStmts]
  | first, s :: rest, h => by
    simp only [okStmts, Bool.and_eq_true] at h ⊢
    exact ⟨okS_mono k c k' c' hk hc first s h.1, okStmts_mono k c k' c' hk hc false rest h.2⟩

theorem okS_mono (k c k' c' : Bool) (hk : k' = true → k = true) (hc : c' = true → c = true) :
    (first : Bool) → (s : Stmt) → piOkS k c first s = true → piOkS k' c' first s = true
  | _, .brk _, _ | _, .goto _ _, _ | _, .label _ _, _ | _, .semi _, _ | _, .localAssign _ _ none, _ => by simp [piOkS]
  | _, .assign _ ts es, h => by
    simp only [piOkS, Bool.and_eq_true] at h ⊢
    exact ⟨okArgs_mono k c k' c' hk hc ts h.1, okArgs_mono k c k' c' hk hc es h.2⟩
  | first, .block b, h => by
    simp only [piOkS] at h ⊢
    exact okSB_mono k c k' c' hk hc first b h
  | _, .call _ f args, h => by
    simp only [piOkS, Bool.and_eq_true] at h ⊢
    exact ⟨okExpr_mono k c k' c' hk hc f h.1, okArgs_mono k c k' c' hk hc args h.2⟩
  | _, .funcDef _ _ _ _ body, h => by
    simp only [piOkS] at h ⊢
    exact okBlock_mono k c k' c' hk hc body h
  | _, .iff _ test tr fl, h => by
    simp only [piOkS, Bool.and_eq_true] at h ⊢
    exact ⟨⟨okExpr_mono k c k' c' hk hc test h.1.1, okBlock_mono k c k' c' hk hc tr h.1.2⟩,
      okFalse_mono k c k' c' hk hc fl h.2⟩
  | _, .iterFor _ _ es body, h => by
    simp only [piOkS, Bool.and_eq_true] at h ⊢
    exact ⟨okArgs_mono k c k' c' hk hc es h.1, okBlock_mono k c k' c' hk hc body h.2⟩
  | _, .localAssign _ _ (some es), h => by
    simp only [piOkS] at h ⊢
    exact okArgs_mono k c k' c' hk hc es h
  | _, .localFunc _ _ _ body, h => by
    simp only [piOkS] at h ⊢
    exact okBlock_mono k c k' c' hk hc body h
  | _, .method _ f _ args, h => by
    simp only [piOkS, Bool.and_eq_true] at h ⊢
    exact ⟨okExpr_mono k c k' c' hk hc f h.1, okArgs_mono k c k' c' hk hc args h.2⟩
  | _, .numFor _ _ a b (some s) body, h => by
    simp only [piOkS, Bool.and_eq_true] at h ⊢
    exact ⟨⟨⟨okExpr_mono k c k' c' hk hc a h.1.1.1, okExpr_mono k c k' c' hk hc b h.1.1.2⟩,
      okExpr_mono k c k' c' hk hc s h.1.2⟩, okBlock_mono k c k' c' hk hc body h.2⟩
  | _, .numFor _ _ a b none body, h => by
    simp only [piOkS, Bool.and_eq_true] at h ⊢
    exact ⟨⟨okExpr_mono k c k' c' hk hc a h.1.1, okExpr_mono k c k' c' hk hc b h.1.2⟩,
      okBlock_mono k c k' c' hk hc body h.2⟩
  | _, .repeat _ cond body, h => by
    simp only [piOkS, Bool.and_eq_true] at h ⊢
    exact ⟨okExpr_mono k c k' c' hk hc cond h.1, okBlock_mono k c k' c' hk hc body h.2⟩
  | _, .whl _ cond body, h => by
    simp only [piOkS, Bool.and_eq_true] at h ⊢
    exact ⟨okExpr_mono k c k' c' hk hc cond h.1, okBlock_mono k c k' c' hk hc body h.2⟩

theorem okSB_mono (k c k' c' : Bool) (hk : k' = true → k = true) (hc : c' = true → c = true) :
    (first : Bool) → (b : Block) → okSB k c first b = true → okSB k' c' first b = true
  | _, .mk _ [] none true, h => by
    simp only [okSB, List.isEmpty_nil, if_true, Bool.not_eq_true'] at h ⊢
    cases hk' : k' with
    | false => rfl
    | true => rw [hk hk'] at h; cases h
  | first, .mk _ (s :: rest) none true, h => by
    simp only [okSB, List.isEmpty_cons, Bool.false_eq_true, if_false, Bool.and_eq_true] at h ⊢
    refine ⟨okStmts_mono k c k' c' hk hc true (s :: rest) h.1, ?_⟩
    cases first with
    | true => rfl
    | false =>
      have h2 := h.2
      simp only [Bool.false_or, Bool.not_eq_true'] at h2 ⊢
      exact hidesGuard_mono hc _ h2
  | _, .mk _ stmts none false, h => by
    simp only [okSB] at h ⊢
    exact okStmts_mono k c k' c' hk hc true stmts h
  | _, .mk _ stmts (some es) _, h => by
    simp only [okSB, Bool.and_eq_true] at h ⊢
    exact ⟨okStmts_mono k c k' c' hk hc true stmts h.1, okArgs_mono k c k' c' hk hc es h.2⟩

theorem okFalse_mono (k c k' c' : Bool) (hk : k' = true → k = true) (hc : c' = true → c = true) :
    (fl : IfFalse) → okFalse k c fl = true → okFalse k' c' fl = true
  | .none, _ => by simp [okFalse]
  | .block b, h => by
    simp only [okFalse] at h ⊢
    exact okBlock_mono k c k' c' hk hc b h
  | .elif _ test tr fl, h => by
    simp only [okFalse, Bool.and_eq_true] at h ⊢
    exact ⟨⟨okExpr_mono k c k' c' hk hc test h.1.1, okBlock_mono k c k' c' hk hc tr h.1.2⟩,
      okFalse_mono k c k' c' hk hc fl h.2⟩
end

/-- the style independent condition implies the condition for every style -/
theorem InlinedOK.for_style {b : Block} (h : InlinedOK b) (sty : Style) : InlinedOKFor sty b :=
  ⟨h.1, okBlock_mono true true _ _ (fun _ => rfl) (fun _ => rfl) b h.2⟩

end Tumfl.Theory
