import Tumfl.Theory.ErrorPosLex
import Tumfl.Theory.HintsCore
import Tumfl.Theory.ParserWFLadder
/-!
# The position invariant of the parser state, and a weakest-precondition calculus for it

`TokIn t tok` : the (1-based) position recorded in `tok` lies inside the text `t` (one past the end of its line
at most); `TokPos t tok` (which implies it) : the token was started by the lexer in a state positioned in `t`.
`PosSt t s` : the current token and the look-ahead token of the parser state are `TokPos t`, and the
lexer state satisfies `Inv2 t`.  `ErrIn t e` : a lexer error carries a position `PosStrict t` (hence `PosInText t`), a parser error
carries a token `TokPos t`.  `EW t m Q s` : running `m` in `s` either succeeds with `(a, s')` such that `Q a s'`,
or fails with an error satisfying `ErrIn t`.  (Same shape as the calculus of `HintOrderCore.lean`.)
-/
namespace Tumfl.Theory
open Tumfl.Model Tumfl.Spec

/-- the token's recorded 1-based (line, column) lies inside the text (the column at most one past the end of the line) -/
def TokIn (t : List Char) (tok : Token) : Prop :=
  1 ≤ tok.line ∧ tok.line ≤ lineOf t + 1 ∧ 0 ≤ tok.column ∧ tok.column ≤ (lineLen t (tok.line - 1) : Int) + 1

/-- the sharp form: the column is at most the length of the line -/
def TokInStrict (t : List Char) (tok : Token) : Prop :=
  1 ≤ tok.line ∧ tok.line ≤ lineOf t + 1 ∧ 0 ≤ tok.column ∧ tok.column ≤ (lineLen t (tok.line - 1) : Int)

theorem TokInStrict.tokIn {t : List Char} {tok : Token} (h : TokInStrict t tok) : TokIn t tok := by
  obtain ⟨a, b, c, d⟩ := h
  exact ⟨a, b, c, by omega⟩

/-- the token was started by the lexer at a state positioned inside the text: at the end of the text (and then it is the
end-of-file token) or on a character that is not white space -/
def TokPos (t : List Char) (tok : Token) : Prop := StartedAt (Inv2 t) tok

/-- the error predicate -/
def ErrIn (t : List Char) : PyErr → Prop
  | .lexer _ l c => PosStrict t l c
  | .parser _ tok _ => TokPos t tok
  | _ => True

structure PosSt (t : List Char) (s : PSt) : Prop where
  cur : TokPos t s.cur
  nxt : TokPos t s.nxt
  lex : Inv2 t s.lex

theorem errIn_of_errAt {t : List Char} {e : PyErr} (h : ErrAt (Inv2 t) e) : ErrIn t e := by
  cases e with
  | lexer m l c =>
    obtain ⟨s0, hs0, rfl, rfl⟩ := h
    exact hs0.2
  | parser _ _ _ => exact h.elim
  | dependency _ _ => trivial
  | py _ _ => trivial
  | fuel => trivial

theorem tokInStrict_of_tokPos {t : List Char} {tok : Token} (h : TokPos t tok) : TokInStrict t tok := by
  obtain ⟨s0, hs0, hl, hc, _⟩ := h
  obtain ⟨h1, h2⟩ := hs0.2
  unfold TokInStrict
  rw [hl, hc]
  refine ⟨by omega, by omega, by omega, ?_⟩
  simp only [Nat.add_sub_cancel]
  omega

theorem tokIn_of_tokPos {t : List Char} {tok : Token} (h : TokPos t tok) : TokIn t tok :=
  (tokInStrict_of_tokPos h).tokIn

/-- the lexer, started in a state positioned in `t`, delivers a token positioned in `t` and stays positioned in `t` -/
theorem getNextToken_tokIn {t : List Char} {cfg : LexCfg} {s : LexSt} {tok : Token} {s' : LexSt}
    (hs : Inv2 t s) (h : getNextToken cfg s = .ok (tok, s')) : Inv2 t s' ∧ TokPos t tok :=
  getNextToken_core (stable_inv2 t) hs h

/-- a token that is not the end-of-file token stands on a character of the text that is not white space -/
theorem tokenAt_of_tokPos {t : List Char} {tok : Token} (h : TokPos t tok) (hne : tok.type ≠ .EOF) : TokenAt t tok := by
  obtain ⟨s0, hs0, a, b, c⟩ := h
  exact tokenAt_of_started ⟨s0, hs0.1, a, b, c⟩ hne

theorem getNextToken_errIn {t : List Char} {cfg : LexCfg} {s : LexSt} {e : PyErr}
    (hs : Inv2 t s) (h : getNextToken cfg s = .error e) : ErrIn t e :=
  errIn_of_errAt (getNextToken_errAt (stable_inv2 t) hs h)

variable {α β : Type} {t : List Char}

structure EW (t : List Char) (m : PM α) (Q : α → PSt → Prop) (s : PSt) : Prop where
  run : match m s with
    | .ok (a, s') => Q a s'
    | .error e => ErrIn t e

/-- `m` keeps `PosSt t` (and all its errors are `ErrIn t`) -/
def ESpec (t : List Char) (m : PM α) : Prop := ∀ s, PosSt t s → EW t m (fun _ s' => PosSt t s') s

theorem EW_bind {m : PM α} {k : α → PM β} {Q : β → PSt → Prop} {s : PSt}
    (h : EW t m (fun a s' => EW t (k a) Q s') s) : EW t (m >>= k) Q s := by
  have h := h.run
  cases hm : m s with
  | error e => rw [hm] at h; exact ⟨by rw [bind_err hm]; exact h⟩
  | ok r => obtain ⟨a, s1⟩ := r; rw [hm] at h; exact ⟨by rw [bind_ok hm]; exact h.run⟩

theorem EW_call {m : PM α} {Q' Q : α → PSt → Prop} {s : PSt}
    (h : EW t m Q' s) (hq : ∀ a s', Q' a s' → Q a s') : EW t m Q s := by
  have h := h.run
  constructor
  cases hm : m s with
  | error e => rw [hm] at h; exact h
  | ok r => obtain ⟨a, s1⟩ := r; rw [hm] at h; exact hq _ _ h

theorem ESpec.call {m : PM α} {Q : α → PSt → Prop} {s : PSt}
    (h : ESpec t m) (hs : PosSt t s) (hq : ∀ a s', PosSt t s' → Q a s') : EW t m Q s :=
  EW_call (h s hs) hq

theorem EW_pure {a : α} {Q : α → PSt → Prop} {s : PSt} (h : Q a s) : EW t (pure a : PM α) Q s := ⟨h⟩

theorem EW_ite {c : Prop} [Decidable c] {a b : PM α} {Q : α → PSt → Prop} {s : PSt}
    (ha : c → EW t a Q s) (hb : ¬ c → EW t b Q s) : EW t (if c then a else b) Q s := by
  split
  · exact ha ‹_›
  · exact hb ‹_›

theorem EW_map {γ : Type} {m : PM α} {g : α → γ} {Q : γ → PSt → Prop} {s : PSt}
    (h : EW t m (fun a s' => Q (g a) s') s) : EW t (g <$> m) Q s := by
  have h := h.run
  constructor
  cases hm : m s with
  | error e => rw [hm] at h; simp [Functor.map, StateT.map, hm, bind, Except.bind]; exact h
  | ok r => obtain ⟨a, s1⟩ := r; rw [hm] at h; simp [Functor.map, StateT.map, hm, bind, Except.bind, pure, Except.pure]; exact h

theorem EW_curTok {Q : Token → PSt → Prop} {s : PSt} (h : Q s.cur s) : EW t curTok Q s := ⟨h⟩
theorem EW_nxtTok {Q : Token → PSt → Prop} {s : PSt} (h : Q s.nxt s) : EW t nxtTok Q s := ⟨h⟩
theorem EW_curIs {ty : TT} {Q : Bool → PSt → Prop} {s : PSt} (h : Q (s.cur.type == ty) s) : EW t (curIs ty) Q s := ⟨h⟩

/-- `perror` with the *current* token (every `perror` site of the parser passes the token it has just read with
`curTok`, the state being unchanged since) -/
theorem EW_perror_cur {msg : String} {Q : α → PSt → Prop} {s : PSt} (hs : PosSt t s) :
    EW t (perror msg s.cur : PM α) Q s := ⟨hs.cur⟩

theorem EW_pyerr {kind site : String} {Q : α → PSt → Prop} {s : PSt} : EW t (pyerr kind site : PM α) Q s := ⟨trivial⟩
theorem EW_fuelErrP {Q : α → PSt → Prop} {s : PSt} : EW t (fuelErrP : PM α) Q s := ⟨trivial⟩

theorem EW_ok {m : PM α} {Q : α → PSt → Prop} {s s' : PSt} {a : α} (h : EW t m Q s) (hm : m s = .ok (a, s')) : Q a s' := by
  have h := h.run; rw [hm] at h; exact h

theorem EW_err {m : PM α} {Q : α → PSt → Prop} {s : PSt} {e : PyErr} (h : EW t m Q s) (hm : m s = .error e) : ErrIn t e := by
  have h := h.run; rw [hm] at h; exact h

/-! ## primitives -/

theorem ESpec_fuelErrP : ESpec t (fuelErrP : PM α) := fun _ _ => EW_fuelErrP

theorem ESpec_addHint (wher what : String) : ESpec t (addHint wher what) := by
  intro s hs
  exact ⟨⟨hs.cur, hs.nxt, hs.lex⟩⟩

theorem ESpec_removeHint : ESpec t removeHint := by
  intro s hs
  by_cases h : s.hints.isEmpty = true
  · constructor; simp only [removeHint, h, if_true]; trivial
  · constructor; simp only [removeHint, h]; exact ⟨hs.cur, hs.nxt, hs.lex⟩

theorem ESpec_switchHint (what : String) : ESpec t (switchHint what) := by
  intro s hs
  cases h : s.hints.getLast? with
  | none => constructor; simp only [switchHint, h]; trivial
  | some x => constructor; simp only [switchHint, h]; exact ⟨hs.cur, hs.nxt, hs.lex⟩

theorem ESpec_assertTok (ty : TT) : ESpec t (assertTok ty) := by
  intro s hs
  constructor
  unfold assertTok
  by_cases h : (s.cur.type != ty) = true
  · simp only [h, if_true]; exact hs.cur
  · simp only [h]; exact hs

theorem ESpec_eatRaw : ESpec t eatRaw := by
  intro s hs
  constructor
  unfold eatRaw
  cases h : getNextToken s.cfg s.lex with
  | error e => exact getNextToken_errIn hs.lex h
  | ok r =>
    obtain ⟨tk, lx⟩ := r
    have hb := getNextToken_tokIn hs.lex h
    exact ⟨hs.nxt, hb.2, hb.1⟩

theorem ESpec_eat (ty : Option TT) : ESpec t (eat ty) := by
  intro s hs
  unfold eat
  cases ty with
  | none => exact ESpec_eatRaw s hs
  | some ty =>
    refine EW_bind (EW_call (ESpec_assertTok ty s hs) ?_)
    intro _ s' h
    exact ESpec_eatRaw s' h

theorem ESpec_eatName : ESpec t eatName := by
  intro s hs
  unfold eatName
  refine EW_bind (EW_curTok ?_)
  refine EW_bind (EW_call (ESpec_eat _ s hs) ?_)
  intro _ s' h
  exact EW_pure h

/-! ## `initParser` -/

theorem initParser_posSt {cfg : LexCfg} {text : List Char} {s0 : PSt} (h : initParser cfg text = .ok s0) : PosSt text s0 := by
  unfold initParser at h
  split at h
  · cases h
  · next t1 l1 h1 =>
    split at h
    · cases h
    · next t2 l2 h2 =>
      cases h
      have a := getNextToken_tokIn (inv2_init text) h1
      have b := getNextToken_tokIn a.1 h2
      exact ⟨a.2, b.2, b.1⟩

theorem initParser_errIn {cfg : LexCfg} {text : List Char} {e : PyErr} (h : initParser cfg text = .error e) : ErrIn text e := by
  unfold initParser at h
  split at h
  · next e1 h1 => cases h; exact getNextToken_errIn (inv2_init text) h1
  · next t1 l1 h1 =>
    split at h
    · next e2 h2 => cases h; exact getNextToken_errIn (getNextToken_tokIn (inv2_init text) h1).1 h2
    · cases h

end Tumfl.Theory
