import Tumfl.Theory.FormatTextTok
/-!
# Stage B1: `removeSeparators` preserves the adjacency discipline and the token readings
-/
namespace Tumfl.Theory
open Tumfl Tumfl.Model

/-! ## readings -/

theorem readTks_drop {x : Piece} (hx : keepRS x = false) {xs : Pieces} {ks : List Spec.Tk} (h : ReadTks xs ks) :
    ReadTks (x :: xs) ks := by
  rcases keepRS_eq_false.mp hx with rfl | rfl | rfl
  · have := ReadTks.other (p := .sep .space) (by simp) (by simp) h
    simpa [pieceTks] using this
  · exact .skip (Or.inl rfl) h
  · exact .skip (Or.inr rfl) h

theorem readTks_cons_mono {x : Piece} {a b : Pieces} (hab : ∀ ks, ReadTks a ks → ReadTks b ks) {ks : List Spec.Tk}
    (h : ReadTks (x :: a) ks) : ReadTks (x :: b) ks := by
  cases h with
  | semi hp hr => exact .semi hp (hab _ hr)
  | skip hp hr => exact .skip hp (hab _ hr)
  | other h1 h2 hr => exact .other h1 h2 (hab _ hr)

theorem rs_read : ∀ (xs rp out : Pieces), removeSepsFrom rp xs = .ok out →
    ∃ body, out = body ++ [P "/"] ∧ ∀ ks, ReadTks body ks → ReadTks xs ks
  | [], rp, out, h => by
    rw [removeSepsFrom] at h
    exact ⟨[], by simpa using h.symm, fun _ h => h⟩
  | x :: xs, rp, out, h => by
    obtain ⟨suf, hs, hout⟩ := removeSepsFrom_cons h
    obtain ⟨body, rfl, hb⟩ := rs_read xs _ _ hs
    rcases hout with rfl | ⟨rfl, hx⟩
    · exact ⟨x :: body, rfl, fun ks hk => readTks_cons_mono hb hk⟩
    · exact ⟨body, rfl, fun ks hk => readTks_drop hx (hb ks hk)⟩

/-- every reading of the result is a reading of the input -/
theorem removeSeparators_read {ts ts' : Pieces} (h : removeSeparators ts = .ok ts') :
    ∀ ks, ReadTks ts' ks → ReadTks ts ks := by
  cases ts with
  | nil => simp [removeSeparators] at h; subst h; exact fun _ h => h
  | cons x0 xs =>
    simp only [removeSeparators] at h
    obtain ⟨suf, hs, h⟩ := lk_bind_ok h
    obtain ⟨body, rfl, hb⟩ := rs_read _ _ _ hs
    simp at h; subst h
    exact fun ks hk => readTks_cons_mono hb hk

/-! ## the discipline -/

/-- the first piece that is not Indent / DeIndent, when it is a text piece -/
def nextStr : Pieces → Option (List Char)
  | [] => none
  | .str s :: _ => some s
  | p :: r => if isIndentTok p then nextStr r else none

/-- the state describes the nearest non-indent piece of the reversed prefix -/
def Link (rp : Pieces) (σ : DS) : Prop :=
  match σ.near with
  | .str => ∃ t, searchBwd rp = .str t ∧ ∀ x, σ.tok = some x → t = x
  | .sep => ∃ k, searchBwd rp = .sep k
  | .none => searchBwd rp = P "/"

/-- input state `σ` versus output state `σ'` -/
structure RSRel (σ σ' : DS) : Prop where
  tok : σ'.tok = σ.tok
  com : σ'.last = .comShort → σ.last = .comShort
  dot : σ'.last = .dot → σ.last = .dot
  ltok : ∀ b, σ.last = .tok b → σ'.last = .tok b
  same : σ.near = .str → σ' = σ
  none : σ.near = .none → σ'.near = .none

theorem RSRel.refl (σ : DS) : RSRel σ σ := ⟨rfl, id, id, fun _ h => h, fun _ => rfl, id⟩

/-- the separators dropped since the last token owe: the next text piece does not need a separator -/
def Debt (σ σ' : DS) (body : Pieces) : Prop :=
  σ'.near = .str → σ.near ≠ .str → ∀ x, σ'.tok = some x → ∀ y, nextStr body = some y → sepRequired x y = .ok false

theorem searchFwd_nextStr : ∀ (body : Pieces) (q : Piece), searchFwd (body ++ [P "/"]) = .ok q →
    ∀ y, nextStr body = some y → q = .str y
  | [], q, _, y, hy => by simp [nextStr] at hy
  | .str s :: r, q, h, y, hy => by
    simp only [nextStr, Option.some.injEq] at hy
    subst hy
    simp only [List.cons_append, searchFwd, isIndentTok, Bool.false_eq_true, if_false, Except.ok.injEq] at h
    exact h.symm
  | .sep k :: r, q, h, y, hy => by
    simp only [nextStr] at hy
    split at hy
    · rename_i hi
      simp only [List.cons_append, searchFwd, hi, if_true] at h
      exact searchFwd_nextStr r q h y hy
    · cases hy

theorem link_adv {rp : Pieces} {σ : DS} (h : Link rp σ) (p : Piece) : Link (p :: rp) (adv σ p) := by
  cases p with
  | str s =>
    simp only [adv]
    split
    · exact ⟨s, by simp [searchBwd, isIndentTok], fun x hx => by cases hx⟩
    · exact ⟨s, by simp [searchBwd, isIndentTok], fun x hx => by cases hx; rfl⟩
  | sep k =>
    cases k <;> simp only [adv]
    case indent => simpa [Link, searchBwd, isIndentTok] using h
    case deindent => simpa [Link, searchBwd, isIndentTok] using h
    all_goals exact ⟨_, rfl⟩

theorem adv_str_indep (σ σ' : DS) (s : List Char) : adv σ (.str s) = adv σ' (.str s) := by
  simp only [adv]

/-- the decision of `remove_separators` on one Space / Statement / Block separator -/
theorem soft_decision {rp suf out : Pieces} {x : Piece}
    (h : (do let next ← searchFwd suf
             match searchBwd rp, next with
             | .str a, .str b => do
               let req ← sepRequired a b
               if req then .ok (x :: suf) else .ok suf
             | _, _ => .ok suf : R Pieces) = .ok out) :
    (out = x :: suf ∧ ∃ a b, searchBwd rp = .str a ∧ searchFwd suf = .ok (.str b) ∧ sepRequired a b = .ok true) ∨
    (out = suf ∧ ∃ q, searchFwd suf = .ok q ∧ ∀ a b, searchBwd rp = .str a → q = .str b → sepRequired a b = .ok false) := by
  obtain ⟨next, hn, h⟩ := lk_bind_ok h
  cases hsb : searchBwd rp with
  | sep k =>
    rw [hsb] at h
    simp only [Except.ok.injEq] at h
    exact .inr ⟨h.symm, _, hn, fun a b ha _ => by cases ha⟩
  | str a =>
    rw [hsb] at h
    cases next with
    | sep k =>
      simp only [Except.ok.injEq] at h
      exact .inr ⟨h.symm, _, hn, fun a b _ hb => by cases hb⟩
    | str b =>
      simp only at h
      obtain ⟨req, hr, h⟩ := lk_bind_ok h
      cases req
      · simp only [Bool.false_eq_true, if_false, Except.ok.injEq] at h
        refine .inr ⟨h.symm, _, hn, fun a' b' ha' hb' => ?_⟩
        cases ha'; cases hb'
        exact hr
      · simp only [if_true, Except.ok.injEq] at h
        exact .inl ⟨h.symm, a, b, rfl, hn, hr⟩

theorem sepRequired_slash (b : List Char) (r : Bool) (h : sepRequired "/".toList b = .ok r) : r = false := by
  cases b with
  | nil => simp [sepRequired] at h
  | cons d t =>
    rw [sepRequired_of "/".toList (d :: t) '/' d '/' (by decide) rfl (by decide)] at h
    have : sepBool '/' d '/' = false := by
      simp only [sepBool, show wordChars.contains '/' = false by decide, show Gen.digits.contains '/' = false by decide,
        show ('/' == '-') = false by decide, show ('/' == '.') = false by decide, show ('/' == '[') = false by decide,
        show ("<>=~".toList.contains '/') = false by decide, Bool.false_and, Bool.and_false, Bool.or_false]
    rw [this] at h
    cases h
    rfl

/-- a kept Space / Statement / Block separator directly follows a text piece (Indent / DeIndent aside) -/
theorem kept_near {rp : Pieces} {σ : DS} (hl : Link rp σ) {a b : List Char} (ha : searchBwd rp = .str a)
    (hr : sepRequired a b = .ok true) : σ.near = .str := by
  cases hn : σ.near with
  | str => rfl
  | sep =>
    simp only [Link, hn] at hl
    obtain ⟨k, hk⟩ := hl
    rw [hk] at ha; cases ha
  | none =>
    simp only [Link, hn] at hl
    rw [hl] at ha
    simp only [P, Piece.str.injEq] at ha
    subst ha
    cases sepRequired_slash b true hr

theorem ok_transfer {σ σ' : DS} {x : Piece} {body : Pieces} (hR : RSRel σ σ') (hok : okPiece σ x)
    (hd : Debt σ σ' (x :: body)) (hst : x = .sep .statement → σ' = σ) : okPiece σ' x := by
  have hcom : σ.last ≠ .comShort → σ'.last ≠ .comShort := fun h h' => h (hR.com h')
  have hdot : σ.last ≠ .dot → σ'.last ≠ .dot := fun h h' => h (hR.dot h')
  have hfoll : ∀ s, Foll σ s → Debt σ σ' (.str s :: body) → Foll σ' s := by
    intro s hf hd x hx
    rw [hR.tok] at hx
    obtain ⟨h1, h2⟩ := hf x hx
    refine ⟨h1, ?_⟩
    rintro (hn | hl)
    · by_cases hs : σ.near = .str
      · exact h2 (Or.inl hs)
      · exact ⟨hd hn hs x (by rw [hR.tok]; exact hx) s rfl, h1⟩
    · exact h2 (Or.inr (hR.dot hl))
  cases x with
  | str s =>
    simp only [okPiece] at hok ⊢
    split
    · rename_i hc
      rw [if_pos hc] at hok
      exact ⟨hcom hok.1, hdot hok.2.1, hok.2.2.1, hfoll s hok.2.2.2 hd⟩
    · rename_i hc
      rw [if_neg hc] at hok
      exact ⟨hcom hok.1, hok.2.1, hfoll s hok.2.2.1 hd, fun e => by
        obtain ⟨b, hb⟩ := hok.2.2.2 e
        exact ⟨b, hR.ltok b hb⟩⟩
  | sep k =>
    cases k <;> simp only [okPiece] at hok ⊢
    case statement => rw [hst rfl]; exact hok
    case newline => exact hdot hok
    case argument => exact hR.ltok _ hok
    case space => exact ⟨hcom hok.1, hdot hok.2⟩
    case block => exact ⟨hcom hok.1, hdot hok.2⟩
    case indent => exact ⟨hcom hok.1, hdot hok.2⟩
    case deindent => exact ⟨hcom hok.1, hdot hok.2⟩
    case dot =>
      obtain ⟨hl, x, hx, hn, hg⟩ := hok
      rw [hR.same hn]
      exact ⟨hl, x, hx, hn, hg⟩

theorem rel_adv_kept {σ σ' : DS} (hR : RSRel σ σ') (x : Piece) : RSRel (adv σ x) (adv σ' x) := by
  cases x with
  | str s => rw [adv_str_indep σ σ' s]; exact RSRel.refl _
  | sep k =>
    cases k <;> simp only [adv, hR.tok]
    case indent =>
      exact ⟨rfl, by simp, by simp, by simp, fun h => by rw [hR.same h], hR.none⟩
    case deindent =>
      exact ⟨rfl, by simp, by simp, by simp, fun h => by rw [hR.same h], hR.none⟩
    all_goals exact RSRel.refl _

theorem debt_adv_kept {σ σ' : DS} (hR : RSRel σ σ') {x : Piece} {body : Pieces} (hd : Debt σ σ' (x :: body)) :
    Debt (adv σ x) (adv σ' x) body := by
  have heq : adv σ x = adv σ' x → Debt (adv σ x) (adv σ' x) body := by
    intro e h1 h2
    rw [← e] at h1
    exact absurd h1 h2
  cases x with
  | str s => exact heq (adv_str_indep σ σ' s)
  | sep k =>
    cases k
    case indent =>
      intro h1 h2 x hx y hy
      exact hd h1 h2 x hx y (by simpa [nextStr, isIndentTok] using hy)
    case deindent =>
      intro h1 h2 x hx y hy
      exact hd h1 h2 x hx y (by simpa [nextStr, isIndentTok] using hy)
    all_goals exact heq (by simp only [adv, hR.tok])

theorem rs_disc : ∀ (xs rp out : Pieces), removeSepsFrom rp xs = .ok out →
    ∃ body, out = body ++ [P "/"] ∧
      ∀ σ σ', Link rp σ → RSRel σ σ' → Disc σ xs → Debt σ σ' body → Disc σ' body
  | [], rp, out, h => by
    rw [removeSepsFrom] at h
    exact ⟨[], by simpa using h.symm, fun _ _ _ _ _ _ => trivial⟩
  | x :: xs, rp, out, h => by
    rw [removeSepsFrom] at h
    obtain ⟨suf, hs, h⟩ := lk_bind_ok h
    obtain ⟨body, rfl, ih⟩ := rs_disc xs (x :: rp) suf hs
    -- a kept piece
    have kept : (x = .sep .space ∨ x = .sep .statement ∨ x = .sep .block →
          ∃ a b, searchBwd rp = .str a ∧ sepRequired a b = .ok true) →
        ∀ σ σ', Link rp σ → RSRel σ σ' → Disc σ (x :: xs) → Debt σ σ' (x :: body) → Disc σ' (x :: body) := by
      intro hsoft σ σ' hl hR hdisc hd
      obtain ⟨hok, hrest⟩ := hdisc
      refine ⟨ok_transfer hR hok hd (fun hx => ?_), ih _ _ (link_adv hl x) (rel_adv_kept hR x) hrest (debt_adv_kept hR hd)⟩
      obtain ⟨a, b, ha, hr⟩ := hsoft (Or.inr (Or.inl hx))
      exact hR.same (kept_near hl ha hr)
    -- a dropped separator
    have dropped : (x = .sep .space ∨ x = .sep .statement ∨ x = .sep .block) →
        (∃ q, searchFwd (body ++ [P "/"]) = .ok q ∧
          ∀ a b, searchBwd rp = .str a → q = .str b → sepRequired a b = .ok false) →
        ∀ σ σ', Link rp σ → RSRel σ σ' → Disc σ (x :: xs) → Debt σ σ' body → Disc σ' body := by
      intro hx ⟨q, hq, hdec⟩ σ σ' hl hR hdisc hd
      obtain ⟨hok, hrest⟩ := hdisc
      have hlast : σ.last ≠ .comShort ∧ σ.last ≠ .dot := by
        rcases hx with rfl | rfl | rfl <;> simp only [okPiece] at hok
        · exact hok
        · exact ⟨hok.1, hok.2.1⟩
        · exact hok
      have hadv : adv σ x = ⟨σ.tok, .sep, .other⟩ := by rcases hx with rfl | rfl | rfl <;> rfl
      refine ih _ _ (link_adv hl x) ?_ hrest ?_
      · rw [hadv]
        exact ⟨hR.tok, fun h => absurd (hR.com h) hlast.1, fun h => absurd (hR.dot h) hlast.2,
          fun b h => (by cases h), fun h => (by cases h), fun h => (by cases h)⟩
      · rw [hadv]
        intro h1 _ x' hx' y hy
        cases hn : σ.near with
        | str =>
          have hq' := searchFwd_nextStr body q hq y hy
          simp only [Link, hn] at hl
          obtain ⟨t, ht, htx⟩ := hl
          have : t = x' := htx x' (by rw [← hR.tok]; exact hx')
          subst this
          exact hdec t y ht hq'
        | sep => exact hd h1 (by rw [hn]; simp) x' hx' y hy
        | none => rw [hR.none hn] at h1; cases h1
    have notsoft : (¬ (x = .sep .space ∨ x = .sep .statement ∨ x = .sep .block)) → out = x :: (body ++ [P "/"]) →
        ∃ body', out = body' ++ [P "/"] ∧
          ∀ σ σ', Link rp σ → RSRel σ σ' → Disc σ (x :: xs) → Debt σ σ' body' → Disc σ' body' := by
      intro hx ho
      exact ⟨x :: body, by rw [ho]; rfl, kept (fun h => absurd h hx)⟩
    have soft : (x = .sep .space ∨ x = .sep .statement ∨ x = .sep .block) →
        (do let next ← searchFwd (body ++ [P "/"])
            match searchBwd rp, next with
            | .str a, .str b => do
              let req ← sepRequired a b
              if req then .ok (x :: (body ++ [P "/"])) else .ok (body ++ [P "/"])
            | _, _ => .ok (body ++ [P "/"]) : R Pieces) = .ok out →
        ∃ body', out = body' ++ [P "/"] ∧
          ∀ σ σ', Link rp σ → RSRel σ σ' → Disc σ (x :: xs) → Debt σ σ' body' → Disc σ' body' := by
      intro hx hdo
      rcases soft_decision hdo with ⟨ho, a, b, ha, _, hr⟩ | ⟨ho, hq⟩
      · exact ⟨x :: body, by rw [ho]; rfl, kept (fun _ => ⟨a, b, ha, hr⟩)⟩
      · exact ⟨body, ho, dropped hx hq⟩
    split at h
    · exact soft (Or.inl rfl) h
    · exact soft (Or.inr (Or.inl rfl)) h
    · exact soft (Or.inr (Or.inr rfl)) h
    · rename_i h1 h2 h3
      simp only [Except.ok.injEq] at h
      exact notsoft (by rintro (rfl | rfl | rfl) <;> simp_all) h.symm

/-- **STAGE B1**: `removeSeparators` preserves the adjacency discipline -/
theorem removeSeparators_disc {ts ts' : Pieces} (h : removeSeparators ts = .ok ts') (hd : Disc DS.init ts) :
    Disc DS.init ts' := by
  cases ts with
  | nil => simp [removeSeparators] at h; subst h; trivial
  | cons x0 xs =>
    simp only [removeSeparators] at h
    obtain ⟨suf, hs, h⟩ := lk_bind_ok h
    obtain ⟨body, rfl, hb⟩ := rs_disc _ _ _ hs
    simp at h; subst h
    obtain ⟨hok, hrest⟩ := hd
    refine ⟨hok, hb _ _ ?_ (RSRel.refl _) hrest (fun h1 h2 => absurd h1 h2)⟩
    have : Link [] DS.init := by simp [Link, DS.init, searchBwd]
    exact link_adv this x0

end Tumfl.Theory
