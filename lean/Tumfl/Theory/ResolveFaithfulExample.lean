import Tumfl.Theory.ResolveFaithful
import Tumfl.Theory.ResolveTermExamples
/-!
# Faithful inlining: non-vacuity examples
-/
namespace Tumfl.Theory
open Tumfl.Model

/-! ## Non-vacuity -/

/-- `main.lua` requires `m` as a statement (inlined), as an expression (inlined again), and as a statement once more
(deduplicated): all three rules `requireInline`, `require`, `requireDedup` are used -/
def faithfulFS : FS :=
  { files := [(["main.lua"], "require(\"m\")\nx = require(\"m\")\nrequire(\"m\")".toList),
              (["m.lua"], "y = 2".toList)], dirs := [] }

def faithfulCheck : Except PyErr Block → Bool
  | .ok (.mk _ [.block (.mk _ [.assign _ [.name _ _] [.number _ _]] none true),
                .assign _ [.name _ _] [.call _ (.func _ [] (.mk _ [.assign _ [.name _ _] [.number _ _]] none true)) [.string _ _]],
                .semi _] none true) => true
  | _ => false

theorem faithful_ok : isOk (resolveRecursive faithfulFS ["main.lua"] [] 20) = true := by decide +kernel
theorem faithful_shape : faithfulCheck (resolveRecursive faithfulFS ["main.lua"] [] 20) = true := by decide +kernel

/-- the task's own example: `x = require("m")` then the statement `require("m")` (deduplicated, because the expression-level
require has entered `m.lua` into `found`); `m.lua` is `return 1` -/
def faithfulFS2 : FS :=
  { files := [(["main.lua"], "x = require(\"m\")\nrequire(\"m\")".toList), (["m.lua"], "return 1".toList)], dirs := [] }

def faithfulCheck2 : Except PyErr Block → Bool
  | .ok (.mk _ [.assign _ [.name _ _] [.call _ (.func _ [] (.mk _ [] (some [.number _ _]) true)) [.string _ _]],
                .semi _] none true) => true
  | _ => false

theorem faithful2_shape : faithfulCheck2 (resolveRecursive faithfulFS2 ["main.lua"] [] 20) = true := by decide +kernel

/-- the hypothesis of `resolve_faithful` is satisfiable -/
theorem faithful_nonvacuous : ∃ b b0 x text, resolveRecursive faithfulFS ["main.lua"] [] 20 = .ok b ∧
    faithfulFS.read ["main.lua"] = some text ∧ parseText text = .ok (b0, x) ∧ InlBlock faithfulFS [] [] b0 b := by
  cases h : resolveRecursive faithfulFS ["main.lua"] [] 20 with
  | error e => have := faithful_ok; rw [h] at this; cases this
  | ok b =>
    obtain ⟨text, b0, x, h1, h2, h3⟩ := resolve_faithful h
    exact ⟨b, b0, x, text, rfl, h1, h2, h3⟩

/-! ## The refinement is strict

With the side condition `isReqLit fn args = false` on the `call` congruence rules (as specified), a call of the bare name
`require` whose argument list is NOT one string literal (`require(x)`, `require()`, `require("a", "b")`) is related to itself
by congruence, whereas the model (the Python code) raises `InvalidDependencyError("Wrong require() arguments")`.  So the
relation holds for more pairs than the model produces; an exact characterisation would need the stronger side condition
`isRequireName fn = false`. -/

theorem inl_nonliteral_require (fs : FS) (sp : List Path) (dir : Path) (t : Token) :
    InlExpr fs sp dir (.call t (.name t "require".toList) [.name t "x".toList])
      (.call t (.name t "require".toList) [.name t "x".toList]) ∧
    ∀ f st, resolveExpr fs sp (f + 1) dir (.call t (.name t "require".toList) [.name t "x".toList]) st =
      .error (.dependency "Wrong require() arguments" t) :=
  ⟨.call rfl (.name _ _) (.cons (.name _ _) .nil),
   fun f st => resolveExpr_require_wrong_args fs sp f dir t _ _ st rfl rfl⟩

end Tumfl.Theory
