import Tumfl.Theory.IdemNumDefs
/-!
# C15, numerals: two descriptions of the same token stream have the same numerals in front of the first end-of-file token
-/
namespace Tumfl.Theory
open Tumfl Tumfl.Model

theorem reads_append {cfg : LexCfg} : ∀ {a b : List Token} {l l' : LexSt}, Reads cfg l (a ++ b) l' →
    ∃ l1, Reads cfg l a l1 ∧ Reads cfg l1 b l'
  | [], _, l, _, h => ⟨l, .nil l, h⟩
  | t :: a, b, l, l', h => by
    obtain ⟨l1, h1, h2⟩ := Reads.cons_inv h
    obtain ⟨l2, h3, h4⟩ := reads_append h2
    exact ⟨l2, .cons h1 h3, h4⟩

theorem reads_join {cfg : LexCfg} : ∀ {a b : List Token} {l l1 l' : LexSt}, Reads cfg l a l1 → Reads cfg l1 b l' →
    Reads cfg l (a ++ b) l'
  | [], _, _, _, _, h1, h2 => by cases h1; exact h2
  | t :: a, b, l, l1, l', h1, h2 => by
    obtain ⟨l2, h3, h4⟩ := Reads.cons_inv h1
    exact .cons h3 (reads_join h4 h2)

/-- the tokens in front of the first end-of-file token of a stream are determined by the start state -/
theorem reads_nonEOF_prefix {cfg : LexCfg} : ∀ (u v : List Token) (x y : Token) (A B : List Token) (l l1 l2 : LexSt),
    Reads cfg l (u ++ x :: A) l1 → Reads cfg l (v ++ y :: B) l2 →
    (∀ t ∈ u, t.type ≠ .EOF) → x.type = .EOF → (∀ t ∈ v, t.type ≠ .EOF) → y.type = .EOF → u = v
  | [], [], _, _, _, _, _, _, _, _, _, _, _, _, _ => rfl
  | [], t :: v, x, y, A, B, l, l1, l2, h1, h2, _, hx, hv, _ => by
    obtain ⟨_, g1, _⟩ := Reads.cons_inv h1
    obtain ⟨_, g2, _⟩ := Reads.cons_inv h2
    rw [g1] at g2
    cases g2
    exact absurd hx (hv _ List.mem_cons_self)
  | a :: u, [], x, y, A, B, l, l1, l2, h1, h2, hu, _, _, hy => by
    obtain ⟨_, g1, _⟩ := Reads.cons_inv h1
    obtain ⟨_, g2, _⟩ := Reads.cons_inv h2
    rw [g1] at g2
    cases g2
    exact absurd hy (hu _ List.mem_cons_self)
  | a :: u, t :: v, x, y, A, B, l, l1, l2, h1, h2, hu, hx, hv, hy => by
    obtain ⟨m1, g1, r1⟩ := Reads.cons_inv h1
    obtain ⟨m2, g2, r2⟩ := Reads.cons_inv h2
    rw [g1] at g2
    cases g2
    rw [reads_nonEOF_prefix u v x y A B m1 l1 l2 r1 r2 (fun t ht => hu t (List.mem_cons_of_mem _ ht)) hx
      (fun t ht => hv t (List.mem_cons_of_mem _ ht)) hy]

theorem tokNum_eof {t : Token} (h : t.type = .EOF) : tokNum t = none := by
  unfold tokNum
  rw [if_neg (by rw [h]; decide)]

theorem numT_all_eof : ∀ (ts : List Token), (∀ t ∈ ts, t.type = .EOF) → numT ts = []
  | [], _ => rfl
  | t :: ts, h => by
    unfold numT
    rw [List.filterMap_cons, tokNum_eof (h t List.mem_cons_self)]
    exact numT_all_eof ts (fun x hx => h x (List.mem_cons_of_mem _ hx))

theorem numT_append (a b : List Token) : numT (a ++ b) = numT a ++ numT b := by
  unfold numT; rw [List.filterMap_append]

/-- split a token list in front of its first end-of-file token -/
theorem split_first_eof : ∀ (ts : List Token), ∃ u v, ts = u ++ v ∧ (∀ t ∈ u, t.type ≠ .EOF) ∧
    (v = [] ∨ ∃ e v', v = e :: v' ∧ e.type = .EOF)
  | [] => ⟨[], [], rfl, fun _ h => (by cases h), .inl rfl⟩
  | t :: ts => by
    by_cases ht : t.type = .EOF
    · exact ⟨[], t :: ts, rfl, fun _ h => (by cases h), .inr ⟨t, ts, rfl, ht⟩⟩
    · obtain ⟨u, v, rfl, hu, hv⟩ := split_first_eof ts
      refine ⟨t :: u, v, rfl, ?_, hv⟩
      intro x hx
      rcases List.mem_cons.mp hx with rfl | hx
      · exact ht
      · exact hu x hx

/-- **the numerals of two descriptions of one token stream**: `consumed` followed by an end-of-file token, and `mts` (without
end-of-file tokens) followed by an end-of-file token -/
theorem numT_streams {cfg : LexCfg} {l l1 l2 : LexSt} {consumed mts : List Token} {c n e1 e2 : Token}
    (h1 : Reads cfg l (consumed ++ [c, n]) l1) (hc : c.type = .EOF)
    (h2 : Reads cfg l (mts ++ [e1, e2]) l2) (hm : ∀ t ∈ mts, t.type ≠ .EOF) (he1 : e1.type = .EOF)
    (hafter : ∀ {l l' : LexSt} {t : Token} {ts : List Token}, Reads cfg l (t :: ts) l' → t.type = .EOF →
      ∀ x ∈ ts, x.type = .EOF) :
    numT consumed = numT mts := by
  obtain ⟨u, v, rfl, hu, hv⟩ := split_first_eof consumed
  rcases hv with rfl | ⟨e, v', rfl, he⟩
  · rw [List.append_nil] at h1 ⊢
    rw [reads_nonEOF_prefix u mts c e1 [n] [e2] l l1 l2 h1 h2 hu hc hm he1]
  · have h1' : Reads cfg l (u ++ e :: (v' ++ [c, n])) l1 := by simpa using h1
    have huv := reads_nonEOF_prefix u mts e e1 _ [e2] l l1 l2 h1' h2 hu he hm he1
    subst huv
    obtain ⟨lm, _, hr⟩ := reads_append h1'
    have hall := hafter hr he
    rw [numT_append, numT_all_eof (e :: v') ?_, List.append_nil]
    intro x hx
    rcases List.mem_cons.mp hx with rfl | hx
    · exact he
    · exact hall x (List.mem_append_left _ hx)

end Tumfl.Theory
