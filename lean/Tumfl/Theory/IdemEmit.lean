import Tumfl.Theory.IdemTree
import Tumfl.Theory.SameProgramNorm
import Tumfl.Theory.FormatTextNums
import Tumfl.Theory.IdemEmitTree
/-!
# C15: model trees that denote the same reference tree print alike up to superfluous Statement separators

`x` (the re-parsed tree) and `y` (the original tree) denote the same reference tree (`toB x = toB y`: the same program up to
the tokens stored in the nodes, `Semicolon` statements and the spelling of numerals).  For a style that prints no comments
and no `Semicolon` statements, their piece lists agree after `cn` (removal of the Statement separators that directly follow
a Statement / Block separator), provided the block-start flags agree (`KL (gB sty y) (lB x)`) and the numerals are spelled
alike.

The chunk-level statements are about the block body *with* its final Statement separator (`bodyPieces`,
`emit sty b ++ [S .statement]`): `visit_Chunk`'s slice `[3:-3]` removes the last piece of the body, and for
`x = [s, Semicolon]`, `y = [s]` the sliced lists differ after `cn` (`x` keeps the separator of `s`).

The induction over the tree is in `IdemEmitTree` (`cnE` .. `cnFalse`); the `cn` toolkit in `IdemEmitBase`.
-/
namespace Tumfl.Theory
namespace IdemE
open Tumfl Tumfl.Model

/-- `emit` of a chunk, with the final Statement separator restored, is the block body up to `cn` -/
theorem emit_chunk_cn (sty : Style) (b : Block) (hc : b.isChunk = true) :
    cn true (emit sty b ++ [S .statement]) = cn true (bodyPieces sty b.stmts b.rets) := by
  unfold emit
  rw [blk, hc, full_bodyOf]
  simp only [if_true]
  rcases bodyPieces_last sty b.stmts b.rets with h | ⟨init, h⟩
  · have hb : bodyOf sty b = [] := h
    rw [hb, h]
    simp [sliceInner, cn_true_statement, cn_nil]
  · have hb : bodyOf sty b = init ++ [S .statement] := h
    rw [hb, h]
    have e := sliceInner_mid [P "do", S .block, S .indent] init [S .statement, S .deindent, P "end"] 3 3 rfl rfl
    have e2 : P "do" :: S .block :: S .indent :: ((init ++ [S .statement]) ++ [S .deindent, P "end"]) =
        [P "do", S .block, S .indent] ++ init ++ [S .statement, S .deindent, P "end"] := by simp
    rw [e2, e]

theorem emit_cn_block (sty : Style) (hic : sty.includeComments = false) (hks : sty.keepSemicolon = false)
    (x y : Block) (hx : pBlock x = true) (hy : pBlock y = true) (h : toB x = toB y) :
    (lB x).length = (gB sty y).length ∧ (numsBlock x).length = (numsBlock y).length ∧
    (KL (gB sty y) (lB x) → (numsBlock x).map numberStr = (numsBlock y).map numberStr →
      (∀ d, cn d (visitBlockFull sty x) = cn d (visitBlockFull sty y)) ∧
      cn true (bodyPieces sty x.stmts x.rets) = cn true (bodyPieces sty y.stmts y.rets)) := by
  have r := cnB sty hic hks x y hx hy h
  exact ⟨r.1, r.2.1, fun hk hn => ⟨ce_full sty (r.2.2 hk hn), r.2.2 hk hn⟩⟩

theorem emit_cn (sty : Style) (hic : sty.includeComments = false) (hks : sty.keepSemicolon = false)
    (x y : Block) (hx : Printable x) (hy : Printable y) (h : denote x = denote y)
    (hk : KL (gB sty y) (lB x)) (hn : (numsBlock x).map numberStr = (numsBlock y).map numberStr) :
    cn true (emit sty x ++ [S .statement]) = cn true (emit sty y ++ [S .statement]) := by
  rw [emit_chunk_cn sty x hx.1, emit_chunk_cn sty y hy.1]
  exact ((emit_cn_block sty hic hks x y hx.2 hy.2 h).2.2 hk hn).2

/-! ## the sliced lists themselves do not agree

`cn true (emit sty x) = cn true (emit sty y)` (and `cn true (sliceInner 3 3 (visitBlockFull sty x)) = ..`) fails: the chunk
`break ;` against the chunk `break`. -/

def cxSty : Style := ⟨[], [], [], false, [], false, false, true, false, false, false, 0, 0, 0, false⟩
def cxX : Block := .mk default [.brk default, .semi default] none true
def cxY : Block := .mk default [.brk default] none true

theorem emit_cn_slice_counterexample :
    cxSty.includeComments = false ∧ cxSty.keepSemicolon = false ∧
    Printable cxX ∧ Printable cxY ∧ denote cxX = denote cxY ∧ KL (gB cxSty cxY) (lB cxX) ∧
    (numsBlock cxX).map numberStr = (numsBlock cxY).map numberStr ∧
    cn true (emit cxSty cxX) ≠ cn true (emit cxSty cxY) := by
  refine ⟨rfl, rfl, by decide, by decide, ?_, ?_, ?_, ?_⟩
  · simp [denote, cxX, cxY, toB, toSs, toS, isSemi]
  · simp [cxX, cxY, gB, lB, gFirst, guardable, visitStmt, isSemi, leadSemi, lSs, lS, gSs, gS, KL, KLrel, P]
  · simp [cxX, cxY, numsBlock, numsStmts, numsStmt]
  · simp [emit, blk, cxX, cxY, Block.isChunk, visitBlockFull, visitStmts, visitStmt, cxSty, sliceInner, cn, S, P]

end IdemE
open Tumfl Tumfl.Model

/-- trees with the same denotation, matching block-start flags and equally spelled numerals print the same pieces up to the
Statement separators that `cn` deletes (blocks) -/
theorem emit_cn_block (sty : Style) (hic : sty.includeComments = false) (hks : sty.keepSemicolon = false)
    (x y : Block) (hx : pBlock x = true) (hy : pBlock y = true) (h : toB x = toB y) :
    (lB x).length = (gB sty y).length ∧ (numsBlock x).length = (numsBlock y).length ∧
    (KL (gB sty y) (lB x) → (numsBlock x).map numberStr = (numsBlock y).map numberStr →
      (∀ d, cn d (visitBlockFull sty x) = cn d (visitBlockFull sty y)) ∧
      cn true (bodyPieces sty x.stmts x.rets) = cn true (bodyPieces sty y.stmts y.rets)) :=
  IdemE.emit_cn_block sty hic hks x y hx hy h

/-- the same for printed chunks, with the final Statement separator restored -/
theorem emit_cn (sty : Style) (hic : sty.includeComments = false) (hks : sty.keepSemicolon = false)
    (x y : Block) (hx : Printable x) (hy : Printable y) (h : denote x = denote y)
    (hk : KL (gB sty y) (lB x)) (hn : (numsBlock x).map numberStr = (numsBlock y).map numberStr) :
    cn true (emit sty x ++ [S .statement]) = cn true (emit sty y ++ [S .statement]) :=
  IdemE.emit_cn sty hic hks x y hx hy h hk hn

end Tumfl.Theory

