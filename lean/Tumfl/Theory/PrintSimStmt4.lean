import Tumfl.Theory.PrintSimStmt3
/-!
# Statements, continued: assignments
-/
namespace Tumfl.Theory
open Tumfl.Model Tumfl.Spec

variable {semi : Bool} {sty : Style}

theorem isVarLike_of_target {e : Expr} (h : isTargetShape e = true) : isVarLike e = true := by
  cases e <;> simp [isTargetShape] at h <;> rfl

theorem isVar_ref_target {e : Expr} (h : isTargetShape e = true) : isVar (refExpr semi sty e) = true := by
  cases e <;> simp [isTargetShape] at h <;> simp [refExpr, isVar]

/-- `, target` for every further target -/
def tgtTail (semi : Bool) (sty : Style) (r : List Expr) : List Spec.Tok :=
  r.flatMap fun e => mkTok (.sym ",") :: TK semi (visitExpr sty e)

theorem TK_visitTargets : (e : Expr) → (r : List Expr) → isTargetShape e = true → r.all isTargetShape = true →
    TK semi (visitTargets sty (e :: r)) = TK semi (visitExpr sty e) ++ tgtTail semi sty r
  | e, [], he, _ => by
    simp [visitTargets, fmtVar, isVarLike_of_target he, tgtTail]
  | e, e2 :: r, he, hr => by
    simp only [List.all_cons, Bool.and_eq_true] at hr
    have ih := TK_visitTargets e2 r hr.1 hr.2
    rw [visitTargets, TK_append, TK_sep_argument, ih]
    simp [fmtVar, isVarLike_of_target he, tgtTail]

theorem tgtTail_head (r : List Expr) (X : List Spec.Tok) (hX : pk X = .sym "=") :
    sfx (pk (tgtTail semi sty r ++ X)) = false ∧
    (isSym "=" (tgtTail semi sty r ++ X) || isSym "," (tgtTail semi sty r ++ X)) = true := by
  cases r with
  | nil =>
    simp only [tgtTail, List.flatMap_nil, List.nil_append, hX]
    refine ⟨rfl, ?_⟩
    simp [isSym, hX]
  | cons e r => simp [tgtTail, sfx, isSym_mkTok]

theorem restassign_step : (r : List Expr) → (∀ t ∈ r, isTargetShape t = true ∧ pExpr t = true ∧ XProp semi sty t) →
    ∀ F X, nA semi sty r + 1 ≤ F → pk X = .sym "=" → restassign F (tgtTail semi sty r ++ X) = .ok (refArgs semi sty r, X)
  | [], _, F, X, hF, hX => by
    obtain ⟨F, rfl⟩ : ∃ f, F = f + 1 := ⟨F - 1, by omega⟩
    rw [restassign]
    simp [tgtTail, isSym, hX, refArgs]
  | t :: r, hall, F, X, hF, hX => by
    simp only [nA] at hF
    obtain ⟨F, rfl⟩ : ∃ f, F = f + 1 := ⟨F - 1, by omega⟩
    obtain ⟨ht, hp, hx⟩ := hall t (by simp)
    have ih := restassign_step r (fun x hx => hall x (by simp [hx])) F X (by omega) hX
    obtain ⟨F', hF', hsx⟩ := hx.P (isVarLike_of_target ht) F (tgtTail semi sty r ++ X) (by omega)
    obtain ⟨F', rfl⟩ : ∃ f, F' = f + 1 := ⟨F' - 1, by omega⟩
    rw [suffixes_stop _ _ _ (tgtTail_head r X hX).1] at hsx
    rw [restassign]
    simp only [tgtTail, List.flatMap_cons, List.cons_append, List.append_assoc, isSym_mkTok, beq_self_eq_true, if_true,
      tail_mkTok] at hsx ih ⊢
    simp [hsx, ih, refArgs, bind, Except.bind]

theorem all_isVar_refArgs : (r : List Expr) → r.all isTargetShape = true → (refArgs semi sty r).all isVar = true
  | [], _ => rfl
  | e :: r, h => by
    simp only [List.all_cons, Bool.and_eq_true] at h
    simp [refArgs, isVar_ref_target h.1, all_isVar_refArgs r h.2]

theorem assign_S {t : Token} {e : Expr} {r es : List Expr} (he : isTargetShape e = true ∧ pExpr e = true ∧ XProp semi sty e)
    (hr : ∀ t ∈ r, isTargetShape t = true ∧ pExpr t = true ∧ XProp semi sty t) (hes : es ≠ [])
    (hall : ∀ x ∈ es, XProp semi sty x) : StmtProp semi sty (.assign t (e :: r) es) := by
  intro _ F rest hF hsafe
  simp only [nS, nA] at hF
  obtain ⟨F, rfl⟩ : ∃ f, F = f + 1 := ⟨F - 1, by omega⟩
  obtain ⟨ht, hp, hx⟩ := he
  have hv := isVarLike_of_target ht
  have hrt : r.all isTargetShape = true := by
    simp only [List.all_eq_true]; intro x hx; exact (hr x hx).1
  obtain ⟨k, tks, hk, hkv⟩ := HeadOK_TK (semi := semi) (varHead sty e hp hv)
  have h2 := args_of_all es hall F rest (by omega) (stopTk_of_safe hsafe) hes
  have h1 := restassign_step r hr F (mkTok (.sym "=") :: (TK semi (visitArgs sty es) ++ rest)) (by omega) rfl
  obtain ⟨hh1, hh2⟩ := tgtTail_head (semi := semi) (sty := sty) r (mkTok (.sym "=") :: (TK semi (visitArgs sty es) ++ rest)) rfl
  obtain ⟨F', hF', hsx⟩ := hx.P hv F (tgtTail semi sty r ++ mkTok (.sym "=") :: (TK semi (visitArgs sty es) ++ rest)) (by omega)
  obtain ⟨F', rfl⟩ : ∃ f, F' = f + 1 := ⟨F' - 1, by omega⟩
  rw [suffixes_stop _ _ _ hh1] at hsx
  have hvar : (refExpr semi sty e :: refArgs semi sty r).all isVar = true := by
    simp [isVar_ref_target ht, all_isVar_refArgs r hrt]
  simp only [visitStmt, TK_append, TK_visitTargets e r ht hrt, TK_sep_space, TK_assign, TK_nil, List.append_assoc,
    List.cons_append, List.nil_append]
  rw [hk, List.cons_append, statement_var hkv, ← List.cons_append, ← hk]
  simp only [exprstat, hsx, bind, Except.bind, hh2, if_true, h1, expectSym, isSym_mkTok, beq_self_eq_true, tail_mkTok, h2, hvar]
  simp [refStmt, refArgs, trailT, hasTrail]

end Tumfl.Theory
