import Tumfl.Theory.FormatTotalEmitBase
/-!
# `format` returns, stage A: the emitted pieces of a printable tree are well formed, under every style

`emit_wf`: no empty text piece, quoted pieces end with their quote, brackets well nested, Indent / DeIndent balanced,
every Argument separator followed by a non-empty text piece.  One mutual induction over the tree (`Wf`), no hypothesis on
the style (comments may be printed).
-/
namespace Tumfl.Theory.TotEmit
open Tumfl Tumfl.Model Tumfl.Theory

/-! ## every expression prints a non-empty text piece -/

theorem hasStr_fmtFunctionArgs (sty : Style) (args : List Expr) :
    hasStrB (fmtFunctionArgs sty args (visitArgs sty args)) = true := by
  unfold fmtFunctionArgs
  split
  · split
    · simp only [visitArgs, visitExpr]; exact hasStr_visitString sty _
    · rfl
  · split
    · simp only [visitArgs, visitExpr]; rfl
    · rfl
  · rfl

theorem hasStr_visitExpr (sty : Style) : (e : Expr) → pExpr e = true → hasStrB (visitExpr sty e) = true
  | .nil _, _ => by simp only [visitExpr]; rfl
  | .bool _ v, _ => by cases v <;> (simp only [visitExpr]; rfl)
  | .vararg _, _ => by simp only [visitExpr]; rfl
  | .number _ n, h => by
    simp only [pExpr] at h
    simp only [visitExpr]; exact hasStrB_str (atom_number h).ne_nil _
  | .string _ v, _ => by simp only [visitExpr]; exact hasStr_visitString sty v
  | .func _ ps body, _ => by simp only [visitExpr]; rfl
  | .table _ fs, _ => by simp only [visitExpr]; rfl
  | .binop _ o l r, _ => by
    simp only [visitExpr, List.append_assoc]
    exact hasStrB_right _ (hasStrB_left _ (hasStrB_str (atom_bop o).ne_nil _))
  | .unop _ u e, _ => by
    simp only [visitExpr]; exact hasStrB_str (atom_uop u).ne_nil _
  | .name _ n, h => by
    simp only [pExpr] at h
    simp only [visitExpr]; exact hasStrB_str (atom_ident h).ne_nil _
  | .index _ l k, _ => by
    simp only [visitExpr, List.append_assoc]
    exact hasStrB_right _ (hasStrB_left _ rfl)
  | .namedIndex _ l nm, h => by
    simp only [pExpr, Bool.and_eq_true] at h
    obtain ⟨t, n, rfl, hn⟩ := nameNodeOK_iff h.2
    simp only [visitExpr, List.append_assoc]
    exact hasStrB_right _ (hasStrB_right _ (hasStrB_str (atom_ident hn).ne_nil _))
  | .call _ f args, _ => by
    simp only [visitExpr]
    exact hasStrB_right _ (hasStr_fmtFunctionArgs sty args)
  | .method _ f m args, _ => by
    simp only [visitExpr, List.append_assoc]
    exact hasStrB_right _ (hasStrB_left _ rfl)

theorem hasStr_visitArgs (sty : Style) : (es : List Expr) → es ≠ [] → pArgs es = true → hasStrB (visitArgs sty es) = true
  | [], h, _ => absurd rfl h
  | [e], _, h => by
    simp only [pArgs, Bool.and_eq_true] at h
    simp only [visitArgs]; exact hasStr_visitExpr sty e h.1
  | e :: e2 :: rest, _, h => by
    rw [pArgs, Bool.and_eq_true] at h
    rw [visitArgs]; exact hasStrB_left _ (hasStr_visitExpr sty e h.1)

theorem hasStr_visitTargets (sty : Style) : (es : List Expr) → es ≠ [] → pArgs es = true →
    hasStrB (visitTargets sty es) = true
  | [], h, _ => absurd rfl h
  | [e], _, h => by
    simp only [pArgs, Bool.and_eq_true] at h
    simp only [visitTargets]; exact hasStr_fmtVar e (hasStr_visitExpr sty e h.1)
  | e :: e2 :: rest, _, h => by
    rw [pArgs, Bool.and_eq_true] at h
    rw [visitTargets]; exact hasStrB_left _ (hasStr_fmtVar e (hasStr_visitExpr sty e h.1))

theorem hasStr_visitField (sty : Style) : (f : Field) → pField f = true → hasStrB (visitField sty f) = true
  | .explicit _ k v, _ => by simp only [visitField]; rfl
  | .named _ n v, _ => by
    simp only [visitField, List.append_assoc]
    exact hasStrB_right _ (hasStrB_left _ rfl)
  | .numbered _ v, h => by
    simp only [pField] at h
    simp only [visitField]; exact hasStr_visitExpr sty v h

theorem hasStr_visitFields (sty : Style) : (fs : List Field) → fs ≠ [] → pFields fs = true →
    hasStrB (visitFields sty fs) = true
  | [], h, _ => absurd rfl h
  | [f], _, h => by
    simp only [pFields, Bool.and_eq_true] at h
    simp only [visitFields]; exact hasStr_visitField sty f h.1
  | f :: f2 :: rest, _, h => by
    rw [pFields, Bool.and_eq_true] at h
    rw [visitFields]; exact hasStrB_left _ (hasStr_visitField sty f h.1)

/-! ## the induction over the tree -/

macro "wf_norm" : tactic =>
  `(tactic| try simp only [List.append_assoc, List.cons_append, List.nil_append, List.append_nil])

syntax "wf_step" : tactic
macro_rules
  | `(tactic| wf_step) => `(tactic| first
    | assumption
    | exact Wf.nil
    | refine Wf.paren ?_ ?_
    | refine Wf.brack ?_ ?_
    | refine Wf.curly ?_ ?_
    | refine Wf.indS ?_ ?_
    | refine Wf.lit (by decide) ?_
    | refine Wf.sepP rfl ?_
    | refine Wf.argS (by assumption) ?_
    | refine Wf.argS (hasStrB_left _ (by assumption)) ?_
    | refine Wf.atom (atom_bop _) ?_
    | refine Wf.atom (atom_uop _) ?_
    | refine Wf.ite ?_ ?_
    | refine wf_wrapParens ?_
    | refine wf_fmtVar _ ?_
    | refine wf_fmtKey ?_
    | refine wf_fmtFunctionArgs _ _ ?_
    | refine Wf.append ?_ ?_)

macro "wf_tac" : tactic => `(tactic| (wf_norm; repeat' wf_step))

mutual
theorem wf_visitExpr (sty : Style) : (e : Expr) → pExpr e = true → Wf (visitExpr sty e)
  | .nil _, _ => by simp only [visitExpr]; wf_tac
  | .bool _ v, _ => by cases v <;> (simp only [visitExpr]; wf_tac)
  | .vararg _, _ => by simp only [visitExpr]; wf_tac
  | .number _ n, h => by
    simp only [pExpr] at h
    simp only [visitExpr]; exact Wf.atom (atom_number h) Wf.nil
  | .string _ v, _ => by simp only [visitExpr]; exact wf_visitString sty v
  | .name _ n, h => by
    simp only [pExpr] at h
    simp only [visitExpr]; exact Wf.atom (atom_ident h) Wf.nil
  | .func _ ps body, h => by
    simp only [pExpr, Bool.and_eq_true] at h
    have h1 := wf_visitArgs sty ps (paramsOK_pArgs h.1).1
    have h2 := wf_drop1 sty body (wf_block sty body h.2) Wf.nil
    rw [List.append_nil] at h2
    simp only [visitExpr]; wf_tac
  | .table _ fs, h => by
    simp only [pExpr] at h
    have h1 := wf_visitFields sty fs h
    simp only [visitExpr]; wf_tac
  | .binop _ o l r, h => by
    simp only [pExpr, Bool.and_eq_true] at h
    have h1 := wf_visitExpr sty l h.1
    have h2 := wf_visitExpr sty r h.2
    simp only [visitExpr]; wf_tac
  | .unop _ u e, h => by
    simp only [pExpr] at h
    have h1 := wf_visitExpr sty e h
    simp only [visitExpr]; wf_tac
  | .index _ l k, h => by
    simp only [pExpr, Bool.and_eq_true] at h
    have h1 := wf_visitExpr sty l h.1
    have h2 := wf_visitExpr sty k h.2
    simp only [visitExpr]; wf_tac
  | .namedIndex _ l n, h => by
    simp only [pExpr, Bool.and_eq_true] at h
    have h1 := wf_visitExpr sty l h.1
    have h2 := wf_visitExpr sty n (pExpr_of_nameNode h.2)
    simp only [visitExpr]; wf_tac
  | .call _ f args, h => by
    simp only [pExpr, Bool.and_eq_true] at h
    have h1 := wf_visitExpr sty f h.1
    have h2 := wf_visitArgs sty args h.2
    simp only [visitExpr]; wf_tac
  | .method _ f m args, h => by
    simp only [pExpr, Bool.and_eq_true] at h
    have h1 := wf_visitExpr sty f h.1.1
    have h2 := wf_visitExpr sty m (pExpr_of_nameNode h.1.2)
    have h3 := wf_visitArgs sty args h.2
    simp only [visitExpr]; wf_tac

theorem wf_visitArgs (sty : Style) : (es : List Expr) → pArgs es = true → Wf (visitArgs sty es)
  | [], _ => by simp only [visitArgs]; exact Wf.nil
  | [e], h => by
    simp only [pArgs, Bool.and_eq_true] at h
    simp only [visitArgs]; exact wf_visitExpr sty e h.1
  | e :: e2 :: rest, h => by
    rw [pArgs, Bool.and_eq_true] at h
    rw [visitArgs]
    exact Wf.append (wf_visitExpr sty e h.1)
      (Wf.argS (hasStr_visitArgs sty (e2 :: rest) (by simp) h.2) (wf_visitArgs sty (e2 :: rest) h.2))

theorem wf_visitFields (sty : Style) : (fs : List Field) → pFields fs = true → Wf (visitFields sty fs)
  | [], _ => by simp only [visitFields]; exact Wf.nil
  | [f], h => by
    simp only [pFields, Bool.and_eq_true] at h
    simp only [visitFields]; exact wf_visitField sty f h.1
  | f :: f2 :: rest, h => by
    rw [pFields, Bool.and_eq_true] at h
    rw [visitFields]
    exact Wf.append (wf_visitField sty f h.1)
      (Wf.argS (hasStr_visitFields sty (f2 :: rest) (by simp) h.2) (wf_visitFields sty (f2 :: rest) h.2))

theorem wf_visitField (sty : Style) : (f : Field) → pField f = true → Wf (visitField sty f)
  | .explicit _ k v, h => by
    simp only [pField, Bool.and_eq_true] at h
    have h1 := wf_visitExpr sty k h.1
    have h2 := wf_visitExpr sty v h.2
    simp only [visitField]; wf_tac
  | .named _ n v, h => by
    simp only [pField, Bool.and_eq_true] at h
    have h1 := wf_visitExpr sty n (pExpr_of_nameNode h.1)
    have h2 := wf_visitExpr sty v h.2
    simp only [visitField]; wf_tac
  | .numbered _ v, h => by
    simp only [pField] at h
    simp only [visitField]; exact wf_visitExpr sty v h

theorem wf_block (sty : Style) : (b : Block) → pBlock b = true → Wf (bodyPieces sty b.stmts b.rets)
  | .mk t stmts none c, h => by
    simp only [pBlock, Bool.and_true] at h
    have h1 := wf_visitStmts sty true stmts h
    simp only [Block.stmts, Block.rets, bodyPieces]; wf_tac
  | .mk t stmts (some es) c, h => by
    simp only [pBlock, Bool.and_eq_true] at h
    have h1 := wf_visitStmts sty true stmts h.1
    have h2 := wf_visitArgs sty es h.2
    simp only [Block.stmts, Block.rets, bodyPieces]; wf_tac

theorem wf_visitStmts (sty : Style) : (first : Bool) → (ss : List Stmt) → pStmts ss = true →
    Wf (visitStmts sty first ss)
  | _, [], _ => by simp only [visitStmts]; exact Wf.nil
  | first, s :: rest, h => by
    simp only [pStmts, Bool.and_eq_true] at h
    have h1 := wf_visitStmt sty s h.1
    have h2 := wf_visitStmts sty false rest h.2
    have h3 := wf_stmtCommentPieces sty s
    have h4 := wf_stmtGuard first (visitStmt sty s)
    rw [visitStmts_cons]; wf_tac

theorem wf_visitStmt (sty : Style) : (s : Stmt) → pStmt s = true → Wf (visitStmt sty s)
  | .assign _ ts es, h => by
    simp only [pStmt, Bool.and_eq_true] at h
    have h1 := wf_visitTargets sty ts h.1.1.2
    have h2 := wf_visitArgs sty es h.2
    simp only [visitStmt]; wf_tac
  | .block b, h => by
    simp only [pStmt, Bool.and_eq_true, Bool.not_eq_true'] at h
    simp only [visitStmt]
    exact wf_blk sty b h.1 (wf_block sty b h.2)
  | .brk _, _ => by simp only [visitStmt]; wf_tac
  | .call _ f args, h => by
    simp only [pStmt, Bool.and_eq_true] at h
    have h1 := wf_visitExpr sty f h.1
    have h2 := wf_visitArgs sty args h.2
    simp only [visitStmt]; wf_tac
  | .funcDef _ names none ps body, h => by
    simp only [pStmt, Bool.and_eq_true, Bool.and_true] at h
    have h1 := wf_visitDotted sty names (allNames_pArgs h.1.1.2).1
    have h2 := wf_visitArgs sty ps (paramsOK_pArgs h.1.2).1
    have h3 := wf_drop1 sty body (r := [S .block, S .newline]) (wf_block sty body h.2) (by wf_tac)
    simp only [visitStmt]; wf_tac
  | .funcDef _ names (some mn) ps body, h => by
    simp only [pStmt, Bool.and_eq_true] at h
    have h1 := wf_visitDotted sty names (allNames_pArgs h.1.1.1.2).1
    have h2 := wf_visitArgs sty ps (paramsOK_pArgs h.1.2).1
    have h3 := wf_drop1 sty body (r := [S .block, S .newline]) (wf_block sty body h.2) (by wf_tac)
    have h4 := wf_visitExpr sty mn (pExpr_of_nameNode h.1.1.2)
    simp only [visitStmt]; wf_tac
  | .goto _ l, h => by
    simp only [pStmt] at h
    have h1 := wf_visitExpr sty l (pExpr_of_nameNode h)
    simp only [visitStmt]; wf_tac
  | .label _ n, h => by
    simp only [pStmt] at h
    have h1 := wf_visitExpr sty n (pExpr_of_nameNode h)
    simp only [visitStmt]; wf_tac
  | .iff _ test tr fl, h => by
    simp only [pStmt, Bool.and_eq_true, Bool.not_eq_true'] at h
    have h1 := wf_visitExpr sty test h.1.1.1
    have h2 := wf_slice21 sty tr h.1.1.2 (wf_block sty tr h.1.2)
    have h3 := wf_visitFalse sty fl h.2
    simp only [visitStmt]; wf_tac
  | .iterFor _ ns es body, h => by
    simp only [pStmt, Bool.and_eq_true, Bool.not_eq_true'] at h
    have h1 := wf_visitArgs sty ns (allNames_pArgs h.1.1.1.1.2).1
    have h2 := wf_visitArgs sty es h.1.1.2
    have h3 := wf_blk sty body h.1.2 (wf_block sty body h.2)
    simp only [visitStmt]; wf_tac
  | .localAssign _ names none, h => by
    simp only [pStmt, Bool.and_eq_true, Bool.and_true] at h
    have h1 := (wf_visitAttNames names h.2).1
    simp only [visitStmt]; wf_tac
  | .localAssign _ names (some []), h => by
    simp [pStmt] at h
  | .localAssign _ names (some (e :: rest)), h => by
    simp only [pStmt, Bool.and_eq_true] at h
    have h1 := (wf_visitAttNames names h.1.2).1
    have h2 := wf_visitArgs sty (e :: rest) h.2
    simp only [visitStmt]; wf_tac
  | .localFunc _ n ps body, h => by
    simp only [pStmt, Bool.and_eq_true] at h
    have h1 := wf_visitExpr sty n (pExpr_of_nameNode h.1.1)
    have h2 := wf_visitArgs sty ps (paramsOK_pArgs h.1.2).1
    have h3 := wf_drop1 sty body (r := [S .statement, S .newline]) (wf_block sty body h.2) (by wf_tac)
    simp only [visitStmt]; wf_tac
  | .method _ f m args, h => by
    simp only [pStmt, Bool.and_eq_true] at h
    have h1 := wf_visitExpr sty f h.1.1
    have h2 := wf_visitExpr sty m (pExpr_of_nameNode h.1.2)
    have h3 := wf_visitArgs sty args h.2
    simp only [visitStmt]; wf_tac
  | .numFor _ v a b none body, h => by
    simp only [pStmt, Bool.and_eq_true, Bool.and_true, Bool.not_eq_true'] at h
    have h1 := wf_visitExpr sty v (pExpr_of_nameNode h.1.1.1.1)
    have h2 := wf_visitExpr sty a h.1.1.1.2
    have h3 := wf_visitExpr sty b h.1.1.2
    have h3' := hasStr_visitExpr sty b h.1.1.2
    have h4 := wf_blk sty body h.1.2 (wf_block sty body h.2)
    simp only [visitStmt]; wf_tac
  | .numFor _ v a b (some st) body, h => by
    simp only [pStmt, Bool.and_eq_true, Bool.not_eq_true'] at h
    have h1 := wf_visitExpr sty v (pExpr_of_nameNode h.1.1.1.1.1)
    have h2 := wf_visitExpr sty a h.1.1.1.1.2
    have h3 := wf_visitExpr sty b h.1.1.1.2
    have h3' := hasStr_visitExpr sty b h.1.1.1.2
    have h5 := wf_visitExpr sty st h.1.1.2
    have h5' := hasStr_visitExpr sty st h.1.1.2
    have h4 := wf_blk sty body h.1.2 (wf_block sty body h.2)
    simp only [visitStmt]; wf_tac
  | .repeat _ c body, h => by
    simp only [pStmt, Bool.and_eq_true, Bool.not_eq_true'] at h
    have h1 := wf_slice21 sty body h.1.1 (wf_block sty body h.1.2)
    have h2 := wf_visitExpr sty c h.2
    simp only [visitStmt]; wf_tac
  | .semi _, _ => by
    simp only [visitStmt]; wf_tac
  | .whl _ c body, h => by
    simp only [pStmt, Bool.and_eq_true, Bool.not_eq_true'] at h
    have h1 := wf_visitExpr sty c h.1.1
    have h2 := wf_blk sty body h.1.2 (wf_block sty body h.2)
    simp only [visitStmt]; wf_tac

theorem wf_visitFalse (sty : Style) : (fl : IfFalse) → pFalse fl = true → Wf (visitFalse sty fl)
  | .none, _ => by simp only [visitFalse]; exact Wf.nil
  | .block b, h => by
    simp only [pFalse, Bool.and_eq_true, Bool.not_eq_true'] at h
    have h1 := wf_slice21 sty b h.1 (wf_block sty b h.2)
    simp only [visitFalse]; wf_tac
  | .elif _ test tr fl, h => by
    simp only [pFalse, Bool.and_eq_true, Bool.not_eq_true'] at h
    have h1 := wf_visitExpr sty test h.1.1.1
    have h2 := wf_slice21 sty tr h.1.1.2 (wf_block sty tr h.1.2)
    have h3 := wf_visitFalse sty fl h.2
    simp only [visitFalse]; wf_tac

theorem wf_visitTargets (sty : Style) : (es : List Expr) → pArgs es = true → Wf (visitTargets sty es)
  | [], _ => by simp only [visitTargets]; exact Wf.nil
  | [e], h => by
    simp only [pArgs, Bool.and_eq_true] at h
    simp only [visitTargets]; exact wf_fmtVar e (wf_visitExpr sty e h.1)
  | e :: e2 :: rest, h => by
    rw [pArgs, Bool.and_eq_true] at h
    rw [visitTargets]
    exact Wf.append (wf_fmtVar e (wf_visitExpr sty e h.1))
      (Wf.argS (hasStr_visitTargets sty (e2 :: rest) (by simp) h.2) (wf_visitTargets sty (e2 :: rest) h.2))

theorem wf_visitDotted (sty : Style) : (es : List Expr) → pArgs es = true → Wf (visitDotted sty es)
  | [], _ => by simp only [visitDotted]; exact Wf.nil
  | [e], h => by
    simp only [pArgs, Bool.and_eq_true] at h
    simp only [visitDotted]; exact wf_visitExpr sty e h.1
  | e :: e2 :: rest, h => by
    rw [pArgs, Bool.and_eq_true] at h
    rw [visitDotted]
    exact Wf.append (wf_visitExpr sty e h.1) (Wf.sepP rfl (wf_visitDotted sty (e2 :: rest) h.2))
end

end Tumfl.Theory.TotEmit

namespace Tumfl.Theory
open Tumfl Tumfl.Model Tumfl.Theory.TotEmit

/-- the pieces emitted for a printable tree, under EVERY style: no empty text piece, quoted pieces end with their quote, brackets well nested,
Indent / DeIndent balanced, every Argument separator followed by a non-empty text piece -/
theorem emit_wf (sty : Style) (b : Block) (hp : Printable b) :
    StrsOK (emit sty b) ∧ Bal (emit sty b) ∧ indBal (emit sty b) = 0 ∧ argOK (emit sty b) = true := by
  have h := wf_emit sty b hp.1 (wf_block sty b hp.2)
  exact ⟨h.strsOK, h.bal, h.indBal, h.argOK⟩

end Tumfl.Theory

