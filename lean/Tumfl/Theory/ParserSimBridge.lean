import Tumfl.Theory.ParserSimTok2
import Tumfl.Theory.ParserSimFixed
import Tumfl.Theory.ParserSimRel
import Tumfl.Theory.ParserWFCore
/-!
# The abstract bridge between the model parser state and the reference token list, and a
success-only weakest-precondition calculus (`SPF`) indexed by the reference token list

`SPF B m ts Q` : whenever the model computation `m` is started in a state fed by the reference token
list `ts` and succeeds with result `a`, the final state is fed by some `ts'` with `Q a ts'`.
-/
namespace Tumfl.Theory
open Tumfl.Model Tumfl.Spec

/-- what the simulation needs to know about the two lexers (soundness direction) -/
structure Bridge where
  /-- the model parser state `s` (its two buffered tokens and its lazy lexer) reads the reference token list `ts` -/
  Feeds : PSt → List Tok → Prop
  /-- the current token is the head of the list (`pk [] = .eof`) -/
  cur : ∀ {s ts}, Feeds s ts → TkRel s.cur (pk ts)
  /-- the look-ahead token is the second token of the list, unless the head is the end of input -/
  nxt : ∀ {s ts}, Feeds s ts → pk ts ≠ .eof → TkRel s.nxt (pk ts.tail)
  /-- a successful `_eat_token` (never called at the end of input) moves to the tail -/
  eat_sound : ∀ {s s' ts}, Feeds s ts → pk ts ≠ .eof → eatRaw s = .ok ((), s') → Feeds s' ts.tail
  /-- `Feeds` ignores the hint stack -/
  hints : ∀ {s ts} (h : List Hint), Feeds s ts → Feeds { s with hints := h } ts

/-- the additional fact needed for completeness: the model lexer delivers the next token whenever the
reference list has one -/
structure Bridge.Complete (B : Bridge) : Prop where
  eat : ∀ {s ts}, B.Feeds s ts → pk ts ≠ .eof → ∃ s', eatRaw s = .ok ((), s')

variable {α β : Type} (B : Bridge)

def SPF (m : PM α) (ts : List Tok) (Q : α → List Tok → Prop) : Prop :=
  ∀ s, B.Feeds s ts → ∀ a s', m s = .ok (a, s') → ∃ ts', B.Feeds s' ts' ∧ Q a ts'

variable {B}

theorem SPF_bind {m : PM α} {k : α → PM β} {ts : List Tok} {Q : β → List Tok → Prop}
    (h : SPF B m ts (fun a ts1 => SPF B (k a) ts1 Q)) : SPF B (m >>= k) ts Q := by
  intro s hf b s' hr
  cases hm : m s with
  | error e => rw [bind_err hm] at hr; cases hr
  | ok r =>
    obtain ⟨a, s1⟩ := r
    rw [bind_ok hm] at hr
    obtain ⟨ts1, hf1, h1⟩ := h s hf a s1 hm
    exact h1 s1 hf1 b s' hr

theorem SPF_conseq {m : PM α} {ts : List Tok} {Q' Q : α → List Tok → Prop}
    (h : SPF B m ts Q') (hq : ∀ a ts', Q' a ts' → Q a ts') : SPF B m ts Q := by
  intro s hf a s' hr
  obtain ⟨ts', hf', h'⟩ := h s hf a s' hr
  exact ⟨ts', hf', hq _ _ h'⟩

theorem SPF_pure {a : α} {ts : List Tok} {Q : α → List Tok → Prop} (h : Q a ts) : SPF B (pure a : PM α) ts Q := by
  intro s hf a' s' hr
  cases hr
  exact ⟨ts, hf, h⟩

theorem SPF_map {γ : Type} {m : PM α} {g : α → γ} {ts : List Tok} {Q : γ → List Tok → Prop}
    (h : SPF B m ts (fun a ts' => Q (g a) ts')) : SPF B (g <$> m) ts Q := by
  intro s hf c s' hr
  cases hm : m s with
  | error e => simp [Functor.map, StateT.map, hm, bind, Except.bind] at hr
  | ok r =>
    obtain ⟨a, s1⟩ := r
    simp [Functor.map, StateT.map, hm, bind, Except.bind, pure, Except.pure] at hr
    obtain ⟨rfl, rfl⟩ := hr
    exact h s hf a s1 hm

theorem SPF_ite {c : Prop} [Decidable c] {a b : PM α} {ts : List Tok} {Q : α → List Tok → Prop}
    (ha : Cond c → SPF B a ts Q) (hb : Cond (¬ c) → SPF B b ts Q) : SPF B (if c then a else b) ts Q := by
  split
  · exact ha ‹_›
  · exact hb ‹_›

/-- a test on a reference token -/
theorem SPF_ite_beq {k k0 : Tk} {a b : PM α} {ts : List Tok} {Q : α → List Tok → Prop}
    (ha : k = k0 → SPF B a ts Q) (hb : k ≠ k0 → SPF B b ts Q) : SPF B (if (k == k0) = true then a else b) ts Q := by
  split
  · next h => exact ha (by simpa using h)
  · next h => exact hb (by simpa using h)

/-- a test of the type of a token against a type with a fixed spelling -/
theorem SPF_ite_ty {t : Token} {ty : TT} {k k0 : Tk} [h0 : FixedTT ty k0] (hk : TkRel t k)
    {a b : PM α} {ts : List Tok} {Q : α → List Tok → Prop}
    (ha : k = k0 → SPF B a ts Q) (hb : k ≠ k0 → SPF B b ts Q) : SPF B (if (t.type == ty) = true then a else b) ts Q := by
  split
  · next h => exact ha (pk_of_type hk (by simpa using h) h0.eq)
  · next h => exact hb (pk_ne_of_type hk (by simpa using h) h0.eq)

theorem SPF_ite_name {t : Token} {k : Tk} (hk : TkRel t k)
    {a b : PM α} {ts : List Tok} {Q : α → List Tok → Prop}
    (ha : ∀ n, k = .name n → SPF B a ts Q) (hb : (∀ n, k ≠ .name n) → SPF B b ts Q) :
    SPF B (if (t.type == .NAME) = true then a else b) ts Q := by
  split
  · next h =>
    obtain ⟨n, hn⟩ := hk.name_iff.1 (by simpa using h)
    exact ha n hn
  · next h =>
    refine hb (fun n hn => ?_)
    have := hk.name_iff.2 ⟨n, hn⟩
    simp_all

theorem SPF_curTok {ts : List Tok} {Q : Token → List Tok → Prop} (h : ∀ t, TkRel t (pk ts) → Q t ts) : SPF B curTok ts Q := by
  intro s hf a s' hr
  cases hr
  exact ⟨ts, hf, h _ (B.cur hf)⟩

theorem SPF_nxtTok {ts : List Tok} {Q : Token → List Tok → Prop}
    (h : ∀ t, (pk ts ≠ .eof → TkRel t (pk ts.tail)) → Q t ts) : SPF B nxtTok ts Q := by
  intro s hf a s' hr
  cases hr
  exact ⟨ts, hf, h _ (B.nxt hf)⟩

theorem SPF_curIs {ty : TT} {k0 : Tk} [h0 : FixedTT ty k0] {ts : List Tok} {Q : Bool → List Tok → Prop}
    (h : Q (pk ts == k0) ts) : SPF B (curIs ty) ts Q := by
  intro s hf a s' hr
  cases hr
  refine ⟨ts, hf, ?_⟩
  have : (s.cur.type == ty) = (pk ts == k0) := by
    have := (B.cur hf).type_iff h0.eq
    by_cases h1 : s.cur.type = ty
    · rw [beq_iff_eq.2 h1, beq_iff_eq.2 (this.1 h1)]
    · have h2 : pk ts ≠ k0 := fun h => h1 (this.2 h)
      rw [beq_eq_false_iff_ne.2 h1, beq_eq_false_iff_ne.2 h2]
  rw [this]; exact h

theorem SPF_perror {msg : String} {tok : Token} {ts : List Tok} {Q : α → List Tok → Prop} :
    SPF B (perror msg tok : PM α) ts Q := by
  intro s hf a s' hr; cases hr

theorem SPF_pyerr {kind site : String} {ts : List Tok} {Q : α → List Tok → Prop} :
    SPF B (pyerr kind site : PM α) ts Q := by
  intro s hf a s' hr; cases hr

theorem SPF_fuelErrP {ts : List Tok} {Q : α → List Tok → Prop} : SPF B (fuelErrP : PM α) ts Q := by
  intro s hf a s' hr; cases hr

theorem SPF_addHint {w x : String} {ts : List Tok} {Q : Unit → List Tok → Prop} (h : Q () ts) :
    SPF B (addHint w x) ts Q := by
  intro s hf a s' hr
  cases hr
  exact ⟨ts, B.hints _ hf, h⟩

theorem SPF_removeHint {ts : List Tok} {Q : Unit → List Tok → Prop} (h : Q () ts) : SPF B removeHint ts Q := by
  intro s hf a s' hr
  unfold removeHint at hr
  split at hr
  · cases hr
  · cases hr; exact ⟨ts, B.hints _ hf, h⟩

theorem SPF_switchHint {w : String} {ts : List Tok} {Q : Unit → List Tok → Prop} (h : Q () ts) :
    SPF B (switchHint w) ts Q := by
  intro s hf a s' hr
  unfold switchHint at hr
  split at hr
  · cases hr
  · cases hr; exact ⟨ts, B.hints _ hf, h⟩

theorem SPF_assertTok {ty : TT} {k0 : Tk} [h0 : FixedTT ty k0] {ts : List Tok} {Q : Unit → List Tok → Prop}
    (h : pk ts = k0 → Q () ts) : SPF B (assertTok ty) ts Q := by
  intro s hf a s' hr
  unfold assertTok at hr
  split at hr
  · cases hr
  · rename_i hne
    cases hr
    exact ⟨ts, hf, h (pk_of_type (B.cur hf) (by simpa using hne) h0.eq)⟩

theorem SPF_assertName {ts : List Tok} {Q : Unit → List Tok → Prop}
    (h : ∀ n, pk ts = .name n → Q () ts) : SPF B (assertTok .NAME) ts Q := by
  intro s hf a s' hr
  unfold assertTok at hr
  split at hr
  · cases hr
  · rename_i hne
    cases hr
    obtain ⟨n, hn⟩ := (B.cur hf).name_iff.1 (by simpa using hne)
    exact ⟨ts, hf, h n hn⟩

theorem SPF_eatRaw {ts : List Tok} {Q : Unit → List Tok → Prop} (hne : pk ts ≠ .eof) (h : Q () ts.tail) :
    SPF B eatRaw ts Q := by
  intro s hf a s' hr
  exact ⟨ts.tail, B.eat_sound hf hne hr, h⟩

/-- `_eat_token()` without an assertion: the current token must be known not to be the end of input -/
theorem SPF_eatNone {ts : List Tok} {Q : Unit → List Tok → Prop} (hne : pk ts ≠ .eof) (h : Q () ts.tail) :
    SPF B (eat none) ts Q := SPF_eatRaw hne h

theorem tkOfTT_ne_eof {ty : TT} {k0 : Tk} (h0 : tkOfTT ty = some k0) (hty : ty ≠ .EOF) : k0 ≠ .eof := by
  intro h; subst h; exact hty (tkOfTT_eof.1 h0)

/-- `_eat_token(ty)` -/
theorem SPF_eatSome {ty : TT} {k0 : Tk} [h0 : FixedTT ty k0] {ts : List Tok}
    {Q : Unit → List Tok → Prop} (h : pk ts = k0 → Q () ts.tail) (hty : ty ≠ .EOF := by decide) :
    SPF B (eat (some ty)) ts Q := by
  unfold eat
  refine SPF_bind (SPF_assertTok fun hp => ?_)
  exact SPF_eatRaw (by rw [hp]; exact tkOfTT_ne_eof h0.eq hty) (h hp)

/-- `__eat_name` -/
theorem SPF_eatName {ts : List Tok} {Q : Expr → List Tok → Prop}
    (h : ∀ e n, pk ts = .name n → NameRel e n → Q e ts.tail) : SPF B eatName ts Q := by
  unfold eatName
  refine SPF_bind (SPF_curTok fun t hk => ?_)
  unfold eat
  refine SPF_bind (SPF_bind (SPF_assertName fun n hn => ?_))
  refine SPF_eatRaw (by rw [hn]; intro h; cases h) ?_
  refine SPF_pure (h _ n hn ⟨t, tokStr t, rfl, ?_⟩)
  rw [hn] at hk
  exact hk.name_val

/-- use of a previously proved `SPF` fact (an induction hypothesis) -/
theorem SPF_call {m : PM α} {ts : List Tok} {Q' Q : α → List Tok → Prop}
    (h : SPF B m ts Q') (hq : ∀ a ts', Q' a ts' → Q a ts') : SPF B m ts Q := SPF_conseq h hq

end Tumfl.Theory
