import Tumfl.Theory.LexBridgeBase
/-!
# LexBridge, numerals, part 2: inversion of `getNumber` (no hypothesis on the text)

Whatever the text, `getNumber` consumes `[0x] ip [. fp] [mark [sign] ds]` where `ip`/`fp` are digits of the base
and `ds` is a (possibly empty) run of decimal digits.
-/
namespace Tumfl.Theory
open Tumfl.Model Tumfl

/-- `takeWhileIn` reads a prefix of the text whose characters are all in `set` -/
theorem takeWhileIn_inv (set : List Char) (lower : Bool) (f : Nat) (s : LexSt) (hf : s.rest.length < f) :
    ∃ a, (takeWhileIn set lower f s []).1 = a.map (fun c => if lower then lowerChar c else c) ∧
      s.rest = a ++ (takeWhileIn set lower f s []).2.rest ∧ ∀ c ∈ a, set.contains c = true := by
  obtain ⟨s', h1, h2⟩ := takeWhileIn_span set lower f s [] hf
  obtain ⟨a1, a2, _⟩ := spanP_inv set.contains s.rest _ _ rfl
  refine ⟨(Spec.spanP set.contains s.rest).1, ?_, ?_, a2⟩
  · rw [h1]; simp
  · rw [h1]; simp only; rw [h2]; exact a1

theorem optStr_isSome (a : List Char) (g : Char → Char) (h : (optStr (a.map g)).isSome = true) : a ≠ [] := by
  rintro rfl
  simp [optStr] at h

/-- integer part -/
theorem numInt_inv (s : LexSt) : ∃ (hex : Bool) (o : Option (List Char)) (s1 : LexSt) (x : Char) (ip : List Char),
    numInt (s.rest.length + 1) s = (hex, o, s1) ∧ (x = 'x' ∨ x = 'X') ∧
    s.rest = (if hex then ['0', x] else []) ++ ip ++ s1.rest ∧
    (∀ c ∈ ip, dig hex c = true) ∧ (o.isSome = true → ip ≠ []) := by
  by_cases hin : inStr s.cur Gen.number = true
  · by_cases h0x : (s.cur == some '0' && (s.peek == some 'x' || s.peek == some 'X')) = true
    · have key : numInt (s.rest.length + 1) s = (true,
          optStr (takeWhileIn Gen.hexNumber true (s.rest.length + 1) (advance (advance s)) []).1,
          (takeWhileIn Gen.hexNumber true (s.rest.length + 1) (advance (advance s)) []).2) := by
        unfold numInt
        simp only [hin, h0x, if_true]
      simp only [Bool.and_eq_true, Bool.or_eq_true, beq_iff_eq] at h0x
      obtain ⟨hc, hp⟩ := h0x
      obtain ⟨x, r, hr, hx⟩ : ∃ x r, s.rest = '0' :: x :: r ∧ (x = 'x' ∨ x = 'X') := by
        cases hr : s.rest with
        | nil => simp [cur_eq, hr] at hc
        | cons c0 t =>
          simp only [cur_eq, hr, List.head?_cons, Option.some.injEq] at hc
          subst hc
          cases t with
          | nil => simp [LexSt.peek, hr] at hp
          | cons x r =>
            simp only [LexSt.peek, hr, Option.some.injEq] at hp
            exact ⟨x, r, rfl, hp⟩
      have hr2 : (advance (advance s)).rest = r := by
        rw [num_advance_rest, num_advance_rest, hr]; rfl
      obtain ⟨a, a1, a2, a3⟩ := takeWhileIn_inv Gen.hexNumber true (s.rest.length + 1) (advance (advance s))
        (by rw [hr2, hr]; simp only [List.length_cons]; omega)
      refine ⟨_, _, _, x, a, key, hx, ?_, ?_, ?_⟩
      · rw [hr2] at a2
        simp only [if_true, List.cons_append, List.nil_append]
        rw [← a2]; exact hr
      · intro c hc'
        have := a3 c hc'
        rw [hexNumber_contains] at this
        exact this
      · rw [a1]; exact optStr_isSome a _
    · have key : numInt (s.rest.length + 1) s = (false,
          optStr (takeWhileIn Gen.number true (s.rest.length + 1) s []).1,
          (takeWhileIn Gen.number true (s.rest.length + 1) s []).2) := by
        unfold numInt
        simp only [hin, h0x, if_true, Bool.false_eq_true, if_false]
      obtain ⟨a, a1, a2, a3⟩ := takeWhileIn_inv Gen.number true (s.rest.length + 1) s (by omega)
      refine ⟨_, _, _, 'x', a, key, Or.inl rfl, ?_, ?_, ?_⟩
      · simpa using a2
      · intro c hc'
        have := a3 c hc'
        rw [number_contains] at this
        exact this
      · rw [a1]; exact optStr_isSome a _
  · have key : numInt (s.rest.length + 1) s = (false, none, s) := by
      unfold numInt
      simp only [hin, Bool.false_eq_true, if_false]
    exact ⟨_, _, _, 'x', [], key, Or.inl rfl, by simp, by simp, by simp⟩

/-- fractional part -/
theorem numFrac_inv (digs : List Char) (P : Char → Bool) (hd : ∀ c, digs.contains c = P c)
    (fuel : Nat) (s1 : LexSt) (hf : s1.rest.length < fuel) :
    ∃ (o : Option (List Char)) (s2 : LexSt) (fp : Option (List Char)),
      numFrac digs fuel s1 = (o, s2) ∧ s1.rest = dotS fp ++ s2.rest ∧
      (∀ f, fp = some f → ∀ c ∈ f, P c = true) ∧ (o.isSome = true → ∃ f, fp = some f ∧ f ≠ []) := by
  by_cases hc : (s1.cur == some '.') = true
  · have key : numFrac digs fuel s1 = (optStr (takeWhileIn digs true fuel (advance s1) []).1,
        (takeWhileIn digs true fuel (advance s1) []).2) := by
      unfold numFrac
      simp only [hc, if_true]
    obtain ⟨r, hr⟩ : ∃ r, s1.rest = '.' :: r := by
      cases hr : s1.rest with
      | nil => simp [cur_eq, hr] at hc
      | cons c0 t =>
        simp only [cur_eq, hr, List.head?_cons, beq_iff_eq, Option.some.injEq] at hc
        exact ⟨t, by rw [hc]⟩
    have hr2 : (advance s1).rest = r := by rw [num_advance_rest, hr]; rfl
    obtain ⟨a, a1, a2, a3⟩ := takeWhileIn_inv digs true fuel (advance s1)
      (by rw [hr2]; rw [hr] at hf; simp only [List.length_cons] at hf; omega)
    refine ⟨_, _, some a, key, ?_, ?_, ?_⟩
    · rw [hr2] at a2
      simp only [dotS, List.cons_append, hr, a2]
    · intro f hf' c hc'
      cases hf'
      have := a3 c hc'
      rw [hd] at this
      exact this
    · intro ho
      rw [a1] at ho
      exact ⟨a, rfl, optStr_isSome a _ ho⟩
  · have key : numFrac digs fuel s1 = (none, s1) := by
      unfold numFrac
      simp only [hc, Bool.false_eq_true, if_false]
    exact ⟨_, _, none, key, by simp [dotS], (by intro f hf'; cases hf'), by simp⟩

/-- the sign of the exponent -/
theorem numSign_inv (s3 : LexSt) : ∃ (neg : Bool),
    s3.rest = (numSign s3).1 ++ (numSign s3).2.rest ∧ SignOK (numSign s3).1 neg := by
  unfold numSign
  cases hr : s3.rest with
  | nil =>
    have : s3.cur = none := by simp [cur_eq, hr]
    simp only [this]
    exact ⟨false, by simp [hr], Or.inl ⟨rfl, rfl⟩⟩
  | cons d t =>
    have hcur : s3.cur = some d := by simp [cur_eq, hr]
    by_cases hd : (d == '+' || d == '-') = true
    · have hd' : d = '+' ∨ d = '-' := by simpa using hd
      simp only [hcur, hd, if_true]
      refine ⟨(d == '-'), by rw [num_advance_rest, hr]; rfl, ?_⟩
      rcases hd' with rfl | rfl
      · exact Or.inr (Or.inl ⟨rfl, rfl⟩)
      · exact Or.inr (Or.inr ⟨rfl, rfl⟩)
    · simp only [hcur, hd, Bool.false_eq_true, if_false]
      exact ⟨false, by simp [hr], Or.inl ⟨rfl, rfl⟩⟩

/-- exponent part -/
theorem numExp_inv (h : Bool) (ip fp : Option (List Char)) (fuel : Nat) (s2 : LexSt) (hf : s2.rest.length < fuel) :
    ∃ (t : NumTuple) (s5 : LexSt) (E : List Char),
      numExp h ip fp fuel s2 = (t, s5) ∧ t.isHex = h ∧ t.ip = ip ∧ t.fp = fp ∧ s2.rest = E ++ s5.rest ∧
      (E = [] ∨ ∃ mk sg ds neg, E = mk :: (sg ++ ds) ∧ isExpC h mk = true ∧ SignOK sg neg ∧
        ∀ c ∈ ds, Spec.isDigit c = true) := by
  by_cases hmk : (if h then (s2.cur == some 'p' || s2.cur == some 'P') else (s2.cur == some 'e' || s2.cur == some 'E')) = true
  · obtain ⟨mk, r, hr, hm⟩ : ∃ mk r, s2.rest = mk :: r ∧ isExpC h mk = true := by
      have hmk' := hmk
      rw [isMark_eq] at hmk'
      cases hr : s2.rest with
      | nil => simp [cur_eq, hr] at hmk'
      | cons c0 t =>
        simp only [cur_eq, hr, List.head?_cons] at hmk'
        exact ⟨c0, t, rfl, hmk'⟩
    have hr3 : (advance s2).rest = r := by rw [num_advance_rest, hr]; rfl
    obtain ⟨neg, r4, hsg⟩ := numSign_inv (advance s2)
    have hl4 : (numSign (advance s2)).2.rest.length < fuel := by
      have := congrArg List.length r4
      rw [hr3] at this
      rw [hr] at hf
      simp only [List.length_cons, List.length_append] at this hf
      omega
    obtain ⟨a, a1, a2, a3⟩ := takeWhileIn_inv Gen.number false fuel (numSign (advance s2)).2 hl4
    have hE : s2.rest = (mk :: ((numSign (advance s2)).1 ++ a)) ++
        (takeWhileIn Gen.number false fuel (numSign (advance s2)).2 []).2.rest := by
      rw [hr, ← hr3, r4]
      conv => lhs; rw [a2]
      simp
    have hright : (mk :: ((numSign (advance s2)).1 ++ a)) = [] ∨ ∃ mk' sg' ds neg',
        (mk :: ((numSign (advance s2)).1 ++ a)) = mk' :: (sg' ++ ds) ∧
        isExpC h mk' = true ∧ SignOK sg' neg' ∧ ∀ c ∈ ds, Spec.isDigit c = true := by
      refine Or.inr ⟨mk, _, a, neg, rfl, hm, hsg, ?_⟩
      intro c hc
      have := a3 c hc
      rw [number_contains] at this
      exact this
    unfold numExp
    simp only [hmk, if_true]
    split
    · exact ⟨_, _, _, rfl, rfl, rfl, rfl, hE, hright⟩
    · split
      · exact ⟨_, _, _, rfl, rfl, rfl, rfl, hE, hright⟩
      · exact ⟨_, _, _, rfl, rfl, rfl, rfl, hE, hright⟩
  · have key : numExp h ip fp fuel s2 = ({ isHex := h, ip := ip, fp := fp, ex := none, fo := none }, s2) := by
      unfold numExp
      simp only [hmk, Bool.false_eq_true, if_false]
    exact ⟨_, _, [], key, rfl, rfl, rfl, by simp, Or.inl rfl⟩

/-- INVERSION of `getNumber`: what it consumes, whatever the text -/
theorem getNumber_inv (s : LexSt) :
    ∃ (hex : Bool) (x : Char) (ip : List Char) (fp : Option (List Char)) (E : List Char),
      (x = 'x' ∨ x = 'X') ∧
      s.rest = (if hex then ['0', x] else []) ++ ip ++ dotS fp ++ E ++ (getNumber s).2.rest ∧
      (∀ c ∈ ip, dig hex c = true) ∧ (∀ f, fp = some f → ∀ c ∈ f, dig hex c = true) ∧
      (getNumber s).1.isHex = hex ∧
      ((getNumber s).1.ip.isSome = true → ip ≠ []) ∧
      ((getNumber s).1.fp.isSome = true → ∃ f, fp = some f ∧ f ≠ []) ∧
      (E = [] ∨ ∃ mk sg ds neg, E = mk :: (sg ++ ds) ∧ isExpC hex mk = true ∧ SignOK sg neg ∧
        ∀ c ∈ ds, Spec.isDigit c = true) := by
  obtain ⟨hex, o1, s1, x, ip, e1, hx, r1, d1, i1⟩ := numInt_inv s
  have hl1 : s1.rest.length < s.rest.length + 1 := by
    have := congrArg List.length r1
    simp only [List.length_append] at this
    omega
  obtain ⟨o2, s2, fp, e2, r2, d2, i2⟩ := numFrac_inv (if hex then Gen.hexNumber else Gen.number) (dig hex)
    (fun c => digSet_contains hex c) (s.rest.length + 1) s1 hl1
  have hl2 : s2.rest.length < s.rest.length + 1 := by
    have := congrArg List.length r2
    simp only [List.length_append] at this
    omega
  obtain ⟨t, s5, E, e3, t1, t2, t3, r3, hE⟩ := numExp_inv hex o1 o2 (s.rest.length + 1) s2 hl2
  have hg : getNumber s = (t, s5) := by
    rw [getNumber_eq]
    simp only [e1, e2, e3]
  rw [hg]
  refine ⟨hex, x, ip, fp, E, hx, ?_, d1, d2, t1, ?_, ?_, hE⟩
  · rw [r1, r2, r3]; simp
  · simp only [t2]; exact i1
  · simp only [t3]; exact i2

end Tumfl.Theory
