import Tumfl.Theory.ParserSimSound4
/-!
# Soundness, step lemmas: atoms, blocks, statement lists
-/
namespace Tumfl.Theory
open Tumfl.Model Tumfl.Spec

variable {B : Bridge}

theorem parseAtom_sound_step {f : Nat} (ih : AllSound B f) (ts : List Tok) :
    SPF B (Model.parseAtom (f + 1)) ts (fun e ts' => ∃ e', Ev (simpleexp · ts) (e', ts') ∧ ExpRel e e') := by
  rw [Model.parseAtom]
  sp ih
  sp_split <;> sp ih
  · exact ⟨_, ev_simple_nil asm, .nil _⟩
  · exact ⟨_, ev_simple_true asm, .tru _⟩
  · exact ⟨_, ev_simple_false asm, .fls _⟩
  · rename_i t hk _ _ m hp
    rw [hp] at hk
    obtain ⟨n, hv, hn⟩ := hk.num_val
    rw [hv]
    exact SPF_pure ⟨_, ev_simple_num hp, .num _ hn⟩
  · rename_i t hk _ _ v hp
    rw [hp] at hk
    have hval := hk.str_val
    subst hval
    exact ⟨_, ev_simple_str hp, .str _ _⟩
  · exact ⟨_, ev_simple_vararg asm, .vararg _⟩
  · exact ⟨_, ev_simple_func asm asm, .func _ asm asm⟩
  · exact ⟨_, ev_simple_table asm asm, asm⟩
  · exact ⟨_, ev_simple_suffixed asm asm, asm⟩
  · exact ⟨_, ev_simple_suffixed asm asm, asm⟩

theorem blockEndTk_false {k : Tk} (h : blockEndTk k = false) : blockFollow true k = false ∧ k ≠ .kw "return" := by
  unfold blockEndTk at h
  split at h
  · cases h
  · next hne => exact ⟨h, fun hk => hne (by rw [hk])⟩

theorem blockEndTk_true {k : Tk} (h : blockEndTk k = true) (hne : k ≠ .kw "return") : blockFollow true k = true := by
  unfold blockEndTk at h
  split at h
  · exact absurd rfl hne
  · exact h

theorem parseStatements_sound_step {f : Nat} (ih : AllSound B f) (ts : List Tok) :
    SPF B (Model.parseStatements (f + 1)) ts (fun r ts' =>
    blockEndTk (pk ts') = true ∧ ∃ ss, Forall₂ StmtRel r ss ∧
      ∀ rt tsE, Ev (statlist · ts') ([], rt, tsE) → Ev (statlist · ts) (ss, rt, tsE)) := by
  rw [Model.parseStatements]
  sp ih
  · rename_i t hk h
    refine ⟨?_, [], .nil, fun rt tsE h => h⟩
    rw [← blockEnd_rel hk]; exact Cond.elim h
  · rename_i t hk h _ _ _ _ _ _ _ hbe _ _ hcont
    have hne : blockEndTk (pk ts) = false := by
      rw [← blockEnd_rel hk]; simpa [Cond] using h
    obtain ⟨h1, h2⟩ := blockEndTk_false hne
    exact ⟨hbe, _, .cons asm asm, fun rt tsE hr => ev_statlist_cons h1 h2 asm (hcont _ _ hr)⟩

/-- the optional `return` list of a block -/
inductive RetsRel : Option (List Expr) → Option (List Exp) → Prop
  | none : RetsRel none none
  | some {l l'} : Forall₂ ExpRel l l' → RetsRel (some l) (some l')

theorem BlockRel.mk' {t : Token} {ch : Bool} {ss : List Stmt} {ss' : List Stat} {rets : Option (List Expr)}
    {rt : Option (List Exp)} (h1 : Forall₂ StmtRel ss ss') (h2 : RetsRel rets rt) :
    BlockRel (.mk t ss rets ch) (.mk ss' rt) := by
  cases h2 with
  | none => exact .blk0 _ _ h1
  | some h => exact .blk1 _ _ h1 h

theorem parseBlock_sound_step {f : Nat} (ih : AllSound B f) (tok : Token) (e : Bool) (ts : List Tok) :
    SPF B (Model.parseBlock (f + 1) tok e) ts (BlockPost e ts) := by
  rw [Model.parseBlock]
  refine SPF_bind ?_
  sp_use (ih.parseStatements _)
  rename_i stmts ts1 hbe ss hss hcont
  refine SPF_bind (SPF_conseq (Q' := fun rets ts2 => pk ts2 ≠ .kw "return" →
    ∃ rt, Ev (statlist · ts1) ([], rt, ts2) ∧ RetsRel rets rt) ?_ ?_)
  · sp ih
    · intro _
      have := ev_statlist_ret0 (ts := ts1) asm (by simp [*])
      exact ⟨_, by simpa [*] using this, .some .nil⟩
    · rename_i t hk h hsemi
      intro hnr
      have hbf : blockFollow true (pk ts1.tail) = true := by
        have h' := Cond.elim h
        simp only [Bool.or_eq_true, hk.beq_iff, blockEnd_rel hk] at h'
        rcases h' with h' | h'
        · exact absurd h' hsemi
        · exact blockEndTk_true h' hnr
      have := ev_statlist_ret0 (ts := ts1) asm (by simp [hbf])
      rw [isSym_false hsemi] at this
      exact ⟨_, by simpa using this, .some .nil⟩
    · rename_i t hk h _ _ _ _ _ _ hsemi
      intro _
      have h' := Cond.elim h
      simp only [Bool.or_eq_true, hk.beq_iff, blockEnd_rel hk, not_or, Bool.not_eq_true] at h'
      have := ev_statlist_ret1 (ts := ts1) asm (by simp [(blockEndTk_false h'.2).1, isSym_false h'.1]) asm
      exact ⟨_, by simpa [hsemi] using this, .some asm⟩
    · rename_i t hk h _ _ _ _ _ _ hsemi
      intro _
      have h' := Cond.elim h
      simp only [Bool.or_eq_true, hk.beq_iff, blockEnd_rel hk, not_or, Bool.not_eq_true] at h'
      have := ev_statlist_ret1 (ts := ts1) asm (by simp [(blockEndTk_false h'.2).1, isSym_false h'.1]) asm
      rw [isSym_false hsemi] at this
      exact ⟨_, by simpa using this, .some asm⟩
    · intro _
      exact ⟨none, ev_statlist_end (blockEndTk_true hbe asm), .none⟩
  · intro rets ts2 hr
    sp ih
    · rename_i he hend
      have he : e = true := Cond.elim he
      subst he
      intro _
      obtain ⟨rt, hev, hrr⟩ := hr (by simp [hend])
      exact ⟨_, ts2, ev_block (hcont _ _ hev), .mk' hss hrr, by simp [hend]⟩
    · rename_i he
      have he : e = false := by simpa [Cond] using he
      subst he
      intro hnr
      obtain ⟨rt, hev, hrr⟩ := hr (hnr rfl)
      exact ⟨_, ts2, ev_block (hcont _ _ hev), .mk' hss hrr, by simp⟩

end Tumfl.Theory
