import Tumfl.Theory.SimTok
/-!
# Token facts for the parser simulation: what `TkRel` says about the tests the two parsers make
-/
namespace Tumfl.Theory
open Tumfl.Model Tumfl.Spec

/-- the reference token kind of a model token type with a fixed spelling -/
def tkOfTT (ty : TT) : Option Tk :=
  if keywordTTs.contains ty then some (.kw ty.value)
  else if symbolTTs.contains ty then some (.sym ty.value)
  else if ty = .EOF then some .eof else none

theorem value_inj_kw : ∀ a b : TT, keywordTTs.contains a = true → keywordTTs.contains b = true → a.value = b.value → a = b := by
  intro a b; cases a <;> cases b <;> decide

theorem value_inj_sym : ∀ a b : TT, symbolTTs.contains a = true → symbolTTs.contains b = true → a.value = b.value → a = b := by
  intro a b; cases a <;> cases b <;> decide

theorem kw_not_sym : ∀ a : TT, keywordTTs.contains a = true → symbolTTs.contains a = false := by
  intro a; cases a <;> decide

theorem psim_kw_not_eof : ∀ a : TT, keywordTTs.contains a = true → a ≠ .EOF := by
  intro a; cases a <;> decide

theorem psim_sym_not_eof : ∀ a : TT, symbolTTs.contains a = true → a ≠ .EOF := by
  intro a; cases a <;> decide

theorem tkOfTT_kw {ty : TT} {s : String} : tkOfTT ty = some (.kw s) ↔ keywordTTs.contains ty = true ∧ ty.value = s := by
  unfold tkOfTT
  by_cases h1 : keywordTTs.contains ty = true
  · rw [if_pos h1]
    constructor
    · intro h; cases h; exact ⟨h1, rfl⟩
    · rintro ⟨_, rfl⟩; rfl
  · rw [if_neg h1]
    constructor
    · intro h; split at h
      · cases h
      · split at h <;> cases h
    · rintro ⟨h, _⟩; exact absurd h h1

theorem tkOfTT_sym {ty : TT} {s : String} : tkOfTT ty = some (.sym s) ↔ symbolTTs.contains ty = true ∧ ty.value = s := by
  unfold tkOfTT
  by_cases h1 : keywordTTs.contains ty = true
  · rw [if_pos h1]
    constructor
    · intro h; cases h
    · rintro ⟨h, _⟩; rw [kw_not_sym ty h1] at h; cases h
  · rw [if_neg h1]
    by_cases h2 : symbolTTs.contains ty = true
    · rw [if_pos h2]
      constructor
      · intro h; cases h; exact ⟨h2, rfl⟩
      · rintro ⟨_, rfl⟩; rfl
    · rw [if_neg h2]
      constructor
      · intro h; split at h <;> cases h
      · rintro ⟨h, _⟩; exact absurd h h2

theorem tkOfTT_eof {ty : TT} : tkOfTT ty = some .eof ↔ ty = .EOF := by
  unfold tkOfTT
  by_cases h1 : keywordTTs.contains ty = true
  · rw [if_pos h1]
    constructor
    · intro h; cases h
    · intro h; exact absurd h (psim_kw_not_eof ty h1)
  · rw [if_neg h1]
    by_cases h2 : symbolTTs.contains ty = true
    · rw [if_pos h2]
      constructor
      · intro h; cases h
      · intro h; exact absurd h (psim_sym_not_eof ty h2)
    · rw [if_neg h2]
      constructor
      · intro h; split at h
        · assumption
        · cases h
      · intro h; rw [if_pos h]

theorem tkOfTT_cases {ty : TT} {k : Tk} (h : tkOfTT ty = some k) :
    (∃ s, k = .kw s) ∨ (∃ s, k = .sym s) ∨ k = .eof := by
  unfold tkOfTT at h
  split at h
  · cases h; exact .inl ⟨_, rfl⟩
  · split at h
    · cases h; exact .inr (.inl ⟨_, rfl⟩)
    · split at h
      · cases h; exact .inr (.inr rfl)
      · cases h

/-- a test of the current token type against a type with a fixed spelling is a test of the reference token -/
theorem TkRel.type_iff {t : Token} {k k0 : Tk} {ty : TT} (hk : TkRel t k) (h0 : tkOfTT ty = some k0) :
    t.type = ty ↔ k = k0 := by
  constructor
  · intro h
    subst h
    cases k with
    | kw s => exact (Option.some.inj ((tkOfTT_kw.2 hk).symm.trans h0))
    | sym s => exact (Option.some.inj ((tkOfTT_sym.2 hk).symm.trans h0))
    | eof => exact (Option.some.inj ((tkOfTT_eof.2 hk).symm.trans h0))
    | name n =>
      have : t.type = .NAME := hk.1
      rw [this] at h0; exact absurd h0 (by simp [tkOfTT, keywordTTs, symbolTTs])
    | str n =>
      have : t.type = .STRING := hk.1
      rw [this] at h0; exact absurd h0 (by simp [tkOfTT, keywordTTs, symbolTTs])
    | num n =>
      have : t.type = .NUMBER := hk.1
      rw [this] at h0; exact absurd h0 (by simp [tkOfTT, keywordTTs, symbolTTs])
  · intro h
    subst h
    cases k with
    | kw s =>
      obtain ⟨h1, h2⟩ := tkOfTT_kw.1 h0
      exact value_inj_kw _ _ hk.1 h1 (hk.2.trans h2.symm)
    | sym s =>
      obtain ⟨h1, h2⟩ := tkOfTT_sym.1 h0
      exact value_inj_sym _ _ hk.1 h1 (hk.2.trans h2.symm)
    | eof => exact (show t.type = .EOF from hk).trans (tkOfTT_eof.1 h0).symm
    | name n => rcases tkOfTT_cases h0 with ⟨s, h⟩ | ⟨s, h⟩ | h <;> cases h
    | str n => rcases tkOfTT_cases h0 with ⟨s, h⟩ | ⟨s, h⟩ | h <;> cases h
    | num n => rcases tkOfTT_cases h0 with ⟨s, h⟩ | ⟨s, h⟩ | h <;> cases h

theorem pk_of_type {t : Token} {k k0 : Tk} {ty : TT} (hk : TkRel t k) (heq : t.type = ty) (h0 : tkOfTT ty = some k0) :
    k = k0 := (hk.type_iff h0).1 heq

theorem pk_ne_of_type {t : Token} {k k0 : Tk} {ty : TT} (hk : TkRel t k) (hne : t.type ≠ ty) (h0 : tkOfTT ty = some k0) :
    k ≠ k0 := fun h => hne ((hk.type_iff h0).2 h)

theorem type_of_pk {t : Token} {k : Tk} (ty : TT) {k0 : Tk} (hk : TkRel t k) (heq : k = k0) (h0 : tkOfTT ty = some k0) :
    t.type = ty := (hk.type_iff h0).2 heq

/-! ## names, strings, numbers -/

theorem TkRel.name_iff {t : Token} {k : Tk} (hk : TkRel t k) : t.type = .NAME ↔ ∃ n, k = .name n := by
  constructor
  · intro h
    cases k with
    | name n => exact ⟨n, rfl⟩
    | kw s => have := hk.1; rw [h] at this; exact absurd this (by decide)
    | sym s => have := hk.1; rw [h] at this; exact absurd this (by decide)
    | eof => have : t.type = .EOF := hk; rw [h] at this; cases this
    | str s => have := hk.1; rw [h] at this; cases this
    | num s => have := hk.1; rw [h] at this; cases this
  · rintro ⟨n, rfl⟩; exact hk.1

theorem TkRel.str_iff {t : Token} {k : Tk} (hk : TkRel t k) : t.type = .STRING ↔ ∃ n, k = .str n := by
  constructor
  · intro h
    cases k with
    | str n => exact ⟨n, rfl⟩
    | kw s => have := hk.1; rw [h] at this; exact absurd this (by decide)
    | sym s => have := hk.1; rw [h] at this; exact absurd this (by decide)
    | eof => have : t.type = .EOF := hk; rw [h] at this; cases this
    | name s => have := hk.1; rw [h] at this; cases this
    | num s => have := hk.1; rw [h] at this; cases this
  · rintro ⟨n, rfl⟩; exact hk.1

theorem TkRel.num_iff {t : Token} {k : Tk} (hk : TkRel t k) : t.type = .NUMBER ↔ ∃ n, k = .num n := by
  constructor
  · intro h
    cases k with
    | num n => exact ⟨n, rfl⟩
    | kw s => have := hk.1; rw [h] at this; exact absurd this (by decide)
    | sym s => have := hk.1; rw [h] at this; exact absurd this (by decide)
    | eof => have : t.type = .EOF := hk; rw [h] at this; cases this
    | name s => have := hk.1; rw [h] at this; cases this
    | str s => have := hk.1; rw [h] at this; cases this
  · rintro ⟨n, rfl⟩; exact hk.1

theorem TkRel.name_val {t : Token} {n : String} (hk : TkRel t (.name n)) : n = String.ofList (tokStr t) := by
  obtain ⟨_, s, hs, hn⟩ := hk
  simp [tokStr, hs, hn]

theorem TkRel.str_val {t : Token} {u : List SUnit} (hk : TkRel t (.str u)) :
    u = (tokStr t).map (fun c => SUnit.ch c.toNat) := by
  obtain ⟨_, s, hs, hn⟩ := hk
  simp [tokStr, hs, hn]

theorem TkRel.num_val {t : Token} {m : Numeral} (hk : TkRel t (.num m)) : ∃ n, t.value = .num n ∧ NumRel n m := hk.2

/-! ## operators -/

theorem binOf_kw : ∀ ty : TT, keywordTTs.contains ty = true → binOfTok { (default : Token) with type := ty } = binOfTk (.kw ty.value) := by
  intro ty; cases ty <;> decide

end Tumfl.Theory
