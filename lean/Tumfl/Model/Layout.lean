import Tumfl.Model.Emit
/-!
# Model of the layout passes of `tumfl/formatter.py` (lines 470-850) and of `format`

Each in-place Python loop over the piece list is written as the evident fold; passes that index
backwards with Python's negative-index wrap-around keep that behaviour.  Sites where the Python code
would raise (`IndexError`, failed `assert`) are `.py ..` errors.
-/
namespace Tumfl.Model

abbrev R (α : Type) := Except PyErr α

def isIndentTok : Piece → Bool
  | .sep .indent | .sep .deindent => true
  | _ => false

def wordChars : List Char := Gen.asciiLetters ++ Gen.digits ++ ['_']

/-- `sep_required(first, second)` on whole tokens -/
def sepRequired (first second : List Char) : R Bool :=
  match first.getLast?, second.head?, first.head? with
  | some last, some start, some f0 =>
    .ok ((wordChars.contains last && wordChars.contains start)
      || (last == '-' && start == '-')
      || (start == '.' && (last == '.' || Gen.digits.contains f0))
      || ("<>=~".toList.contains last && start == '=')
      || (last == '[' && (start == '[' || start == '=')))
  | _, _, _ => .error (.py "IndexError" "formatter.sep_required")

/-- `search_token(i + 1, 1, tokens)` on the already processed suffix (which ends in the dummy `/`) -/
def searchFwd : Pieces → R Piece
  | [] => .error (.py "IndexError" "formatter.search_token")
  | t :: rest => if isIndentTok t then searchFwd rest else .ok t

/-- `search_token(i - 1, -1, tokens)` on the reversed prefix; running off the front wraps around to the
last element of the list, which is the dummy `/` (Python's negative indices) -/
def searchBwd : Pieces → Piece
  | [] => P "/"
  | t :: rest => if isIndentTok t then searchBwd rest else t

/-- the backwards loop of `remove_separators` over indices `len-2 .. 1`: `revPrefix` are the elements in
front of the current one (nearest first), the result is the processed suffix including the dummy -/
def removeSepsFrom : Pieces → Pieces → R Pieces
  | _, [] => .ok [P "/"]
  | revPrefix, x :: xs => do
    let suf ← removeSepsFrom (x :: revPrefix) xs
    match x with
    | .sep .space | .sep .statement | .sep .block =>
      let prev := searchBwd revPrefix
      let next ← searchFwd suf
      match prev, next with
      | .str a, .str b =>
        let req ← sepRequired a b
        if req then .ok (x :: suf) else .ok suf
      | _, _ => .ok suf
    | _ => .ok (x :: suf)

/-- `remove_separators` (index 0 is never examined) -/
def removeSeparators (ts : Pieces) : R Pieces :=
  match ts with
  | [] => .ok []
  | x0 :: xs => do
    let suf ← removeSepsFrom [x0] xs
    .ok (x0 :: suf.dropLast)

/-- `__get_indentation_width` -/
def indentationWidth (sty : Style) : Nat :=
  (sty.indentation.map fun c => if c == '\t' then 4 else 1).foldl (· + ·) 0

/-- `__estimate_width`; `none` when the stream spans several lines -/
def estimateWidth (indentation : Int) (stream : Pieces) (sty : Style) (withIndentation : Bool) : Option Int :=
  let start : Int := if withIndentation then indentation * indentationWidth sty else 0
  stream.foldl (fun (acc : Option Int) tok =>
    match acc with
    | none => none
    | some size =>
      match tok with
      | .sep .space | .sep .dot => some (size + 1)
      | .sep .argument => some (size + sty.argumentSeparator.length)
      | .sep .newline | .sep .statement | .sep .block => none
      | .sep .indent | .sep .deindent => some size
      | .str s => if s.contains '\n' then none else some (size + s.length)) (some start)

def isDigitC (c : Char) : Bool := '0' ≤ c && c ≤ '9'
def pyIsSpace (c : Char) : Bool := Gen.pyIsSpace.contains c.toNat
def pyIsAlnum (c : Char) : Bool := Gen.pyIsAlnumAscii.contains c.toNat

/-- `__escape_positions`: `pos` is the index of `s`'s head in the whole string -/
def escapePositions : Nat → Nat → List Char → List Nat
  | 0, _, _ => []
  | _ + 1, _, [] => []
  | f + 1, pos, c :: rest =>
    if c == '\\' then
      let following := rest.head?
      let endPos : Nat :=
        if following == some 'x' then pos + 4
        else if following == some 'u' then
          -- input_string.find("}", pos) + 1, or 0 when there is none; at least pos + 2
          match (c :: rest).idxOf? '}' with
          | some i => max (pos + i + 1) (pos + 2)
          | none => pos + 2
        else if (match following with | some d => isDigitC d | none => false) then
          -- up to three digits
          let d2 := (rest.drop 1).head?
          let d3 := (rest.drop 2).head?
          if (match d2 with | some d => isDigitC d | none => false) then
            (if (match d3 with | some d => isDigitC d | none => false) then pos + 4 else pos + 3)
          else pos + 2
        else pos + 2
      let inside := (List.range (endPos - (pos + 1))).map (· + pos + 1)
      inside ++ escapePositions f endPos ((c :: rest).drop (endPos - pos))
    else escapePositions f (pos + 1) rest

/-- the first loop of `__get_newline_pos`: from `max_pos` down to 2 -/
def newlinePosBack (s : Array Char) (forbidden : List Nat) : Nat → Option Nat
  | 0 => none
  | cur + 1 =>
    let p := cur + 1
    if p ≤ 1 then none
    else
      let isEnd := p == s.size
      let isAllowed := isEnd || !(pyIsSpace (s.getD p ' '))
      let isWordBreak := !(pyIsAlnum (s.getD (p - 1) ' '))
      if isAllowed && isWordBreak && !forbidden.contains p then some p
      else newlinePosBack s forbidden cur

/-- the second loop: from `max_pos` upwards -/
def newlinePosFwd (s : Array Char) (forbidden : List Nat) : Nat → Nat → Nat
  | 0, p => p
  | f + 1, p =>
    if p < s.size then
      if !(pyIsSpace (s.getD p ' ')) && !forbidden.contains p then p else newlinePosFwd s forbidden f (p + 1)
    else s.size

/-- `__get_newline_pos` -/
def getNewlinePos (input : List Char) (maxPos0 : Int) : Nat :=
  let maxPos : Nat := (max maxPos0 1).toNat
  if input.length < maxPos then input.length
  else
    let forbidden := escapePositions (input.length + 1) 0 input
    let arr := input.toArray
    match newlinePosBack arr forbidden maxPos with
    | some p => p
    | none => newlinePosFwd arr forbidden (input.length + 1) maxPos

/-- the `while input_string:` loop of `_string_ident` -/
def stringIdentLoop (limit : Int) : Nat → List Char → List (List Char)
  | 0, _ => []
  | _ + 1, [] => []
  | f + 1, input =>
    let pos0 := getNewlinePos input limit
    let pos := if (pos0 : Int) ≥ (input.length : Int) - 2 then input.length else pos0
    input.take pos :: stringIdentLoop limit f (input.drop pos)

/-- `_string_ident` -/
def stringIdent (input : List Char) (indentation : Int) (sty : Style) : R Pieces :=
  match input.head?, input.getLast? with
  | some q, some l =>
    if !(q == '\'' || q == '"') || l != q then .error (.py "AssertionError" "formatter._string_ident")
    else
      let width := estimateWidth indentation [.str input] sty true
      let fits := match width with | some w => w != 0 && w ≤ sty.lineWidth | none => false
      if fits then .ok [.str input]
      else
        let raw : Int := indentation * indentationWidth sty + 2
        let parts := stringIdentLoop ((sty.lineWidth : Int) - raw) (input.length + 1) input
        -- each part gets `\z` and a Newline, except the last one
        let rec build : List (List Char) → Pieces
          | [] => []
          | [p] => [.str p]
          | p :: rest => .str (p ++ ['\\', 'z']) :: S .newline :: build rest
        .ok (build parts)
  | _, _ => .error (.py "IndexError" "formatter._string_ident")

def isQuoted (s : List Char) : Bool := match s.head? with | some c => c == '"' || c == '\'' | none => false

def closingOf (c : List Char) : Option Char :=
  match c with
  | [x] => Gen.matchingBrackets.lookup x
  | _ => none

/-- the collecting loop of `__inner_indent` on the reversed stream: returns the components (in source
order), and the reversed stream in front of the matching opening bracket -/
def innerCollect (sty : Style) :
    Nat → Char → Int → Pieces → List Pieces → Pieces → R (List Pieces × Pieces)
  | 0, _, _, _, _, _ => .error .fuel
  | _ + 1, _, _, [], _, _ => .error (.py "IndexError" "formatter.__inner_indent")
  | f + 1, openCh, indentation, tok :: rest, comps, cur =>
    if tok == .str [openCh] then .ok (if cur.isEmpty then comps else cur :: comps, rest)
    else
      match tok with
      | .str s =>
        match closingOf s with
        | some o2 => do
          -- a nested bracket: recurse one level deeper, its content goes in front of the component
          let (content, rest') ← innerIndent sty f s o2 (indentation + 1) rest
          innerCollect sty f openCh indentation rest' comps (content ++ cur)
        | none =>
          if isQuoted s then do
            let ps ← stringIdent s (indentation + 1) sty
            innerCollect sty f openCh indentation rest comps (ps ++ cur)
          else innerCollect sty f openCh indentation rest comps (tok :: cur)
      | .sep .argument => innerCollect sty f openCh indentation rest (cur :: comps) []
      | _ => innerCollect sty f openCh indentation rest comps (tok :: cur)
where
  /-- `__inner_indent`: `closeTok` is the bracket the backwards scan met first, `openCh` its partner -/
  innerIndent (sty : Style) : Nat → List Char → Char → Int → Pieces → R (Pieces × Pieces)
    | 0, _, _, _, _ => .error .fuel
    | f + 1, closeTok, openCh, indentation, rest => do
      let (components, rest') ← innerCollect sty f openCh indentation rest [] []
      let useTrailing := closeTok == ['}']
      let width : Int := components.foldl (fun (acc : Option Int) comp =>
          match acc with
          | none => none
          | some w =>
            match estimateWidth indentation comp sty false with
            | none => none
            | some cw => some (w + cw + sty.argumentSeparator.length)) (some 0) |>.getD ((sty.lineWidth : Int) + 1)
      if width + 2 + indentation * indentationWidth sty ≤ sty.lineWidth || components.length ≤ 1 then
        .ok ([.str [openCh]] ++ joinSep .argument components ++ [.str closeTok], rest')
      else
        let body : Pieces := components.flatMap fun c => c ++ [S .argument, S .newline]
        -- `result.pop(len(result) - 2)`: drop the last Argument
        let body' := if useTrailing then body else (body.take (body.length - 2)) ++ body.drop (body.length - 1)
        .ok ([.str [openCh], S .indent, S .newline] ++ body' ++ [S .deindent, .str closeTok], rest')

/-- `indent_brackets` on the reversed stream, accumulating the processed suffix -/
def indentBracketsRev (sty : Style) : Nat → Pieces → Int → Pieces → R Pieces
  | 0, _, _, _ => .error .fuel
  | _ + 1, [], _, acc => .ok acc
  | f + 1, tok :: rest, indentation, acc =>
    match tok with
    | .sep .deindent => indentBracketsRev sty f rest (indentation + 1) (tok :: acc)
    | .sep .indent => indentBracketsRev sty f rest (indentation - 1) (tok :: acc)
    | .str s =>
      match closingOf s with
      | some o => do
        let (content, rest') ← innerCollect.innerIndent sty (rest.length + 2) s o indentation rest
        indentBracketsRev sty f rest' indentation (content ++ acc)
      | none =>
        if isQuoted s then do
          let ps ← stringIdent s indentation sty
          indentBracketsRev sty f rest indentation (ps ++ acc)
        else indentBracketsRev sty f rest indentation (tok :: acc)
    | _ => indentBracketsRev sty f rest indentation (tok :: acc)

/-- `indent_brackets` -/
def indentBrackets (ts : Pieces) (sty : Style) : R Pieces :=
  indentBracketsRev sty (ts.length + 1) ts.reverse 0 []

/-- `__inner_add_spacing`: returns the index where it stopped, the line breaks seen, and the indices to add -/
def innerAddSpacing (ts : Array Piece) (spacer : Nat) :
    Nat → Nat → Option Nat → Nat → Nat → List Nat → R (Nat × Nat × List Nat)
  | 0, _, _, _, _, _ => .error .fuel
  | f + 1, index, lastStmt, total, current, toAdd =>
    if index < ts.size then
      match ts.getD index (S .space) with
      | .sep .indent => do
        let (idx', newlines, toAdd') ← innerAddSpacing ts spacer f (index + 1) none 0 0 toAdd
        innerAddSpacing ts spacer f (idx' + 1) lastStmt total (current + newlines) toAdd'
      | .sep .deindent => .ok (index, total + current, toAdd)
      | .sep .newline => innerAddSpacing ts spacer f (index + 1) lastStmt total (current + 1) toAdd
      | .str s => innerAddSpacing ts spacer f (index + 1) lastStmt total (current + s.count '\n') toAdd
      | .sep .statement =>
        let toAdd' := match lastStmt with
          | some l => if current > spacer then (l + 1) :: (index + 1) :: toAdd else toAdd
          | none => toAdd
        innerAddSpacing ts spacer f (index + 1) (some index) (total + current + 1) 0 toAdd'
      | _ => innerAddSpacing ts spacer f (index + 1) lastStmt total current toAdd
    else .ok (index, total + current, toAdd)

def insertAt (xs : Pieces) (i : Nat) (x : Piece) : Pieces := xs.take i ++ x :: xs.drop i

/-- `add_spacing` -/
def addSpacing (ts : Pieces) (sty : Style) : R Pieces := do
  let (_, _, toAdd) ← innerAddSpacing ts.toArray sty.blockSpacer (2 * ts.length + 2) 0 none 0 0 []
  let sorted := (toAdd.eraseDups.toArray.qsort (· > ·)).toList
  .ok (sorted.foldl (fun acc i => insertAt acc i (S .newline)) ts)

/-- `__remove_orphaned_tokens`: backwards loop; `revPrefix` = elements in front (nearest first) -/
def removeOrphanedFrom : Pieces → Pieces → Pieces
  | _, [] => []
  | revPrefix, x :: xs =>
    let suf := removeOrphanedFrom (x :: revPrefix) xs
    if x == .str [] then suf
    else if x == .sep .statement then
      -- token_stream[i - 1]; for i = 0 Python wraps to the last element of the list
      let prev : Piece := match revPrefix with
        | p :: _ => p
        | [] => (x :: suf).getLast?.getD x
      match prev with
      | .sep _ => suf
      | .str _ =>
        match suf with
        | .sep .newline :: .sep .deindent :: _ => suf
        | _ => x :: suf
    else x :: suf

def removeOrphaned (ts : Pieces) : Pieces := removeOrphanedFrom [] ts

def pyRstrip (s : List Char) : List Char := (s.reverse.dropWhile pyIsSpace).reverse

/-- `resolve_tokens`; `blank` is set for the element directly after a resolved Newline: if that element
is a Newline too it becomes the empty string (the inner `while` of the Python loop runs at most once) -/
def resolveTokensAux (sty : Style) : Bool → Pieces → R Pieces
  | _, [] => .ok []
  | blank, tok :: rest =>
    let newline : List Char := if sty.statementSeparator.contains '\n' then sty.statementSeparator else ['\n']
    if blank && tok == .sep .newline then do
      let r ← resolveTokensAux sty false rest
      .ok (.str [] :: r)
    else
      match tok with
      | .sep .space => do let r ← resolveTokensAux sty false rest; .ok (P " " :: r)
      | .sep .dot => do let r ← resolveTokensAux sty false rest; .ok (P "." :: r)
      | .sep .statement | .sep .block => do let r ← resolveTokensAux sty false rest; .ok (.str sty.statementSeparator :: r)
      | .sep .argument => do
        let r ← resolveTokensAux sty false rest
        match rest.head? with
        | none => .error (.py "IndexError" "formatter.resolve_tokens")
        | some nxt =>
          .ok ((if nxt == .sep .newline then .str (pyRstrip sty.argumentSeparator) else .str sty.argumentSeparator) :: r)
      | .sep .newline => do let r ← resolveTokensAux sty true rest; .ok (.str newline :: r)
      | t => do let r ← resolveTokensAux sty false rest; .ok (t :: r)

def resolveTokens (sty : Style) (ts : Pieces) : R Pieces := resolveTokensAux sty false ts

/-- `indent` -/
def indentLoop (indentStr : List Char) : Pieces → Int → Bool → R Pieces
  | [], level, _ => if level == 0 then .ok [] else .error (.py "AssertionError" "formatter.indent")
  | tok :: rest, level, dirty =>
    match tok with
    | .sep .indent => do let r ← indentLoop indentStr rest (level + 1) dirty; .ok (tok :: r)
    | .sep .deindent => do let r ← indentLoop indentStr rest (level - 1) dirty; .ok (tok :: r)
    | .sep _ => .error (.py "AssertionError" "formatter.indent")
    | .str s =>
      let s' := if dirty then (List.replicate level.toNat indentStr).flatten ++ s else s
      let dirty' := if s.getLast? == some '\n' then true else (if dirty then false else dirty)
      do let r ← indentLoop indentStr rest level dirty'; .ok (.str s' :: r)

/-- `join_tokens` -/
def joinTokens (ts : Pieces) : List Char :=
  ts.flatMap fun | .str s => s | .sep _ => []

def splitOnNewline : List Char → List (List Char)
  | [] => [[]]
  | c :: cs =>
    match splitOnNewline cs with
    | [] => [[c]]
    | l :: ls => if c == '\n' then [] :: l :: ls else (c :: l) :: ls

def pyStripAll (s : List Char) : List Char := pyRstrip (s.dropWhile pyIsSpace)

/-- `format(ast, style)` -/
def format (sty : Style) (ast : Block) : R (List Char) := do
  let ts0 := emit sty ast
  let ts1 ← (if sty.removeUnnecessaryChars then removeSeparators ts0 else .ok ts0)
  let ts2 ← (if sty.lineWidth > 0 then indentBrackets ts1 sty else .ok ts1)
  let ts3 ← (if sty.blockSpacer > 0 then addSpacing ts2 sty else .ok ts2)
  let ts4 := .str ("--".toList ++ sty.commentSep ++ "tumfl".toList) :: S .newline :: ts3
  let ts5 := removeOrphaned ts4
  let ts6 ← resolveTokens sty ts5
  let ts7 ← indentLoop sty.indentation ts6 0 false
  let ending := if sty.removeUnnecessaryChars then [] else sty.statementSeparator
  let formatted := joinTokens ts7
  let lines := (splitOnNewline formatted).map pyRstrip
  .ok (pyStripAll (lines.intersperse ['\n']).flatten ++ ending)

end Tumfl.Model
