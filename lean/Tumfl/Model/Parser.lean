import Tumfl.Model.Lexer
import Tumfl.Model.Ast
import Tumfl.Model.Ladder
import Tumfl.Gen.Ladder
/-!
# Model of `tumfl/parser.py` (hand-transcribed, one definition per method)

The parser state `PSt` holds `current_token`, `next_token`, the lexer (tokens are pulled lazily, so a
lexical error surfaces exactly when the Python parser would hit it) and the hint stack.  The
expression ladder is the generic `Model.ladderExp` instantiated with the level table read from
parser.py (`Gen/Ladder.lean`).
-/
namespace Tumfl.Model
open Tumfl.Spec

structure PSt where
  cur : Token
  nxt : Token
  lex : LexSt
  hints : List Hint
  cfg : LexCfg

abbrev PM := StateT PSt (Except PyErr)

def perror {α : Type} (msg : String) (tok : Token) : PM α :=
  fun s => .error (.parser msg tok s.hints)

def pyerr {α : Type} (kind site : String) : PM α := fun _ => .error (.py kind site)
def fuelErrP {α : Type} : PM α := fun _ => .error .fuel

def curTok : PM Token := fun s => .ok (s.cur, s)
def nxtTok : PM Token := fun s => .ok (s.nxt, s)
def curIs (t : TT) : PM Bool := fun s => .ok (s.cur.type == t, s)

/-- `_assert` -/
def assertTok (t : TT) : PM Unit := fun s =>
  if s.cur.type != t then .error (.parser "Unexpected token" s.cur s.hints) else .ok ((), s)

/-- `_eat_token` without the optional assertion -/
def eatRaw : PM Unit := fun s =>
  match getNextToken s.cfg s.lex with
  | .error e => .error e
  | .ok (t, lx) => .ok ((), { s with cur := s.nxt, nxt := t, lex := lx })

/-- `_eat_token(token_type)` -/
def eat (t : Option TT := none) : PM Unit := do
  match t with
  | some ty => assertTok ty
  | none => pure ()
  eatRaw

/-- `_add_hint` -/
def addHint (wher what : String) : PM Unit := fun s =>
  .ok ((), { s with hints := s.hints ++ [{ token := s.cur, «where» := wher, what := what }] })

/-- `_remove_hint`: `list.pop()` -/
def removeHint : PM Unit := fun s =>
  if s.hints.isEmpty then .error (.py "IndexError" "parser._remove_hint") else .ok ((), { s with hints := s.hints.dropLast })

/-- `_switch_hint`: `context_hints[-1].what = what` -/
def switchHint (what : String) : PM Unit := fun s =>
  match s.hints.getLast? with
  | none => .error (.py "IndexError" "parser._switch_hint")
  | some h => .ok ((), { s with hints := s.hints.dropLast ++ [{ h with what := what }] })

/-- `Parser.__init__` -/
def initParser (cfg : LexCfg) (text : List Char) : Except PyErr PSt :=
  match getNextToken cfg (initLex text) with
  | .error e => .error e
  | .ok (t1, l1) =>
    match getNextToken cfg l1 with
    | .error e => .error e
    | .ok (t2, l2) => .ok { cur := t1, nxt := t2, lex := l2, hints := [], cfg := cfg }

def blockEndTypes : List TT := Gen.blockEndTypes.filterMap TT.ofName

def binOfTok (t : Token) : Option BOp :=
  match Gen.binaryTokens.lookup t.type.name with
  | some n => BOp.all.find? fun o => o.sym == n
  | none => none

def unOfTok (t : Token) : Option UOp :=
  match Gen.unaryTokens.lookup t.type.name with
  | some n => UOp.all.find? fun o => o.sym == n
  | none => none

def ladderLevels : List LevelDesc :=
  Gen.ladderLevels.map fun (ns, r) => { ops := ns.filterMap fun n => BOp.all.find? fun o => o.sym == n, right := r }

def powOps : List BOp := Gen.powOps.filterMap fun n => BOp.all.find? fun o => o.sym == n

def tokStr (t : Token) : List Char := match t.value with | .str s => s | .num _ => []

/-- `__eat_name` -/
def eatName : PM Expr := do
  let t ← curTok
  eat (some .NAME)
  pure (.name t (tokStr t))

def isVarNode : Expr → Bool
  | .name _ _ | .index _ _ _ | .namedIndex _ _ _ => true
  | _ => false

def suffixStarts : List TT := [.L_BRACKET, .DOT, .L_PAREN, .L_CURL, .COLON, .STRING]

/-- the expression signature of the model parser for a given atom parser -/
def modelSig (atom : PM Expr) : ExprSig PSt Expr PyErr Token where
  peek := fun s => s.cur
  eat := fun s => match eatRaw s with | .ok (_, s') => .ok s' | .error e => .error e
  simple := fun s => atom s
  binOf := binOfTok
  unOf := unOfTok
  mkBin := fun t o l r => .binop t o l r
  mkUn := fun t u e => .unop t u e
  fuelErr := .fuel

mutual
/-- `_parse_block` -/
def parseBlock : Nat → Token → Bool → PM Block
  | 0, _, _ => fuelErrP
  | f + 1, blockToken, expectEnd => do
    let stmts ← parseStatements f
    let rets ← (do
      if ← curIs .RETURN then
        eat (some .RETURN)
        let t ← curTok
        let es ← (if t.type == .SEMICOLON || blockEndTypes.contains t.type then pure [] else parseExpList f)
        if ← curIs .SEMICOLON then eat
        pure (some es)
      else pure none : PM (Option (List Expr)))
    if expectEnd then eat (some .END)
    pure (.mk blockToken stmts rets false)

/-- the `while self.current_token.type not in self._BLOCK_END_TYPES:` loop -/
def parseStatements : Nat → PM (List Stmt)
  | 0 => fuelErrP
  | f + 1 => do
    let t ← curTok
    if blockEndTypes.contains t.type then pure []
    else
      let s ← parseStatement f
      let rest ← parseStatements f
      pure (s :: rest)

/-- `_parse_statement` -/
def parseStatement : Nat → PM Stmt
  | 0 => fuelErrP
  | f + 1 => do
    let t ← curTok
    match t.type with
    | .SEMICOLON => do eat (some .SEMICOLON); pure (.semi t)
    | .BREAK => do eat (some .BREAK); pure (.brk t)
    | .GOTO => do
      addHint "goto" "name"
      eat (some .GOTO)
      let n ← eatName
      removeHint
      pure (.goto t n)
    | .LABEL_BORDER => do
      addHint "label" "name"
      eat (some .LABEL_BORDER)
      let n ← eatName
      switchHint "end"
      eat (some .LABEL_BORDER)
      removeHint
      pure (.label t n)
    | .DO => do
      eat
      let b ← parseBlock f t true
      pure (.block b)
    | .WHILE => do
      addHint "while" "condition"
      eat (some .WHILE)
      let c ← parseExp f
      switchHint "block"
      let bt ← curTok
      eat (some .DO)
      let body ← parseBlock f bt true
      removeHint
      pure (.whl t c (body.extendComment t.comment))
    | .REPEAT => do
      addHint "repeat" "block"
      eat (some .REPEAT)
      let body ← parseBlock f t false
      switchHint "condition"
      eat (some .UNTIL)
      let c ← parseExp f
      removeHint
      pure (.repeat t c body)
    | .IF => parseIf f
    | .FOR => do
      addHint "for" "name"
      eat (some .FOR)
      let first ← eatName
      removeHint
      let c ← curTok
      if c.type == .ASSIGN then do
        addHint "numeric for" "start expression"
        eat (some .ASSIGN)
        let start ← parseExp f
        switchHint "stop expression"
        eat (some .COMMA)
        let stop ← parseExp f
        let step ← (do
          if ← curIs .COMMA then
            switchHint "step expression"
            eat
            let e ← parseExp f
            pure (some e)
          else pure none : PM (Option Expr))
        switchHint "block"
        let bt ← curTok
        eat (some .DO)
        let body ← parseBlock f bt true
        removeHint
        pure (.numFor t first start stop step (body.extendComment t.comment))
      else if c.type == .COMMA || c.type == .IN then do
        addHint "iterative for" "name list"
        let names ← parseNameList f (some first) false
        switchHint "expression list"
        eat (some .IN)
        let es ← parseExpList f
        switchHint "block"
        let bt ← curTok
        eat (some .DO)
        let body ← parseBlock f bt true
        removeHint
        pure (.iterFor t names es (body.extendComment t.comment))
      else perror "unexpected for condition" c
    | .FUNCTION => do
      addHint "function" "name"
      eat (some .FUNCTION)
      let n0 ← eatName
      let names ← parseDotted f
      let method ← (do
        if ← curIs .COLON then
          switchHint "method name"
          eat
          let m ← eatName
          pure (some m)
        else pure none : PM (Option Expr))
      let (params, body) ← parseFuncBody f t
      pure (.funcDef t (n0 :: names) method params body)
    | .LOCAL => do
      eat (some .LOCAL)
      let c ← curTok
      if c.type == .FUNCTION then do
        addHint "local function" "name"
        let ft := c.extendComment t.comment
        eat (some .FUNCTION)
        let n ← eatName
        let (params, body) ← parseFuncBody f ft
        pure (.localFunc ft n params body)
      else if c.type == .NAME then do
        addHint "local assign" "names"
        assertTok .NAME
        let names ← parseAttNames f
        let es ← (do
          if ← curIs .ASSIGN then
            switchHint "expressions"
            eat
            let es ← parseExpList f
            pure (some es)
          else pure none : PM (Option (List Expr)))
        removeHint
        pure (.localAssign t names es)
      else perror "Unexpected symbol after local" c
    | .L_PAREN | .NAME => parseVarStmt f
    | _ => perror "Unexpected statement" t

/-- `{DOT Name}` of `_parse_function` -/
def parseDotted : Nat → PM (List Expr)
  | 0 => fuelErrP
  | f + 1 => do
    if ← curIs .DOT then
      eat
      let n ← eatName
      let rest ← parseDotted f
      pure (n :: rest)
    else pure []

/-- the `while True:` loop of `_parse_local_assignment` -/
def parseAttNames : Nat → PM (List AttName)
  | 0 => fuelErrP
  | f + 1 => do
    switchHint "name"
    let n ← eatName
    let att ← (do
      if ← curIs .LESS_THAN then
        switchHint "name attribute"
        eat
        let a ← eatName
        eat (some .GREATER_THAN)
        pure (some a)
      else pure none : PM (Option Expr))
    if ← curIs .COMMA then
      eat
      let rest ← parseAttNames f
      pure (.mk n att :: rest)
    else pure [.mk n att]

/-- `_parse_if` -/
def parseIf : Nat → PM Stmt
  | 0 => fuelErrP
  | f + 1 => do
    let ifTok ← curTok
    addHint "if" "if condition"
    eat (some .IF)
    let cond ← parseExp f
    switchHint "if block"
    let bt ← curTok
    eat (some .THEN)
    let ifBlock ← parseBlock f bt false
    let elifs ← parseElseIfs f
    let els ← (do
      if ← curIs .ELSE then
        switchHint "else block"
        let bt ← curTok
        eat
        let b ← parseBlock f bt false
        pure (some b)
      else pure none : PM (Option Block))
    eat (some .END)
    removeHint
    let tail : IfFalse := match els with | some b => .block b | none => .none
    let fl := elifs.foldr (fun (x : Token × Expr × Block) acc => .elif x.1 x.2.1 (x.2.2.extendComment ifTok.comment) acc) tail
    pure (.iff ifTok cond (ifBlock.extendComment ifTok.comment) fl)

/-- the `while self.current_token.type == TokenType.ELSEIF:` loop -/
def parseElseIfs : Nat → PM (List (Token × Expr × Block))
  | 0 => fuelErrP
  | f + 1 => do
    if ← curIs .ELSEIF then
      switchHint "elseif condition"
      let et ← curTok
      eat
      let c ← parseExp f
      switchHint "elseif block"
      let bt ← curTok
      eat (some .THEN)
      let b ← parseBlock f bt false
      let rest ← parseElseIfs f
      pure ((et, c, b) :: rest)
    else pure []

/-- `_parse_funcbody` -/
def parseFuncBody : Nat → Token → PM (List Expr × Block)
  | 0, _ => fuelErrP
  | f + 1, functionToken => do
    switchHint "parameters"
    eat (some .L_PAREN)
    let c ← curTok
    let params ← (do
      if c.type == .NAME then
        let names ← parseNameList f none true
        let c2 ← curTok
        if c2.type == .ELLIPSIS then
          switchHint "varargs"
          eat
          pure (names ++ [.vararg c2])
        else pure names
      else if c.type == .ELLIPSIS then
        switchHint "varargs"
        eat
        pure [.vararg c]
      else pure [] : PM (List Expr))
    let bt ← curTok
    switchHint "body"
    eat (some .R_PAREN)
    let body ← parseBlock f bt true
    removeHint
    pure (params, body.extendComment functionToken.comment)

/-- `_parse_name_list` -/
def parseNameList : Nat → Option Expr → Bool → PM (List Expr)
  | 0, _, _ => fuelErrP
  | f + 1, first, leaveVararg => do
    match first with
    | some n =>
      if ← curIs .COMMA then
        eat
        let rest ← parseNames f leaveVararg
        pure (n :: rest)
      else pure [n]
    | none => parseNames f leaveVararg

/-- the `while True:` loop of `_parse_name_list`, including the check after it -/
def parseNames : Nat → Bool → PM (List Expr)
  | 0, _ => fuelErrP
  | f + 1, leaveVararg => do
    let c ← curTok
    if c.type == .ELLIPSIS && leaveVararg then pure []
    else
      let n ← eatName
      if ← curIs .COMMA then
        eat
        let rest ← parseNames f leaveVararg
        pure (n :: rest)
      else
        let c2 ← curTok
        if leaveVararg && c2.type == .ELLIPSIS then perror "Expected a comma in front of the varargs" c2
        else pure [n]

/-- `_parse_exp_list` -/
def parseExpList : Nat → PM (List Expr)
  | 0 => fuelErrP
  | f + 1 => do
    let e ← parseExp f
    if ← curIs .COMMA then
      eat
      let rest ← parseExpList f
      pure (e :: rest)
    else pure [e]

/-- `_parse_var_stmt` and `_parse_assignment` -/
def parseVarStmt : Nat → PM Stmt
  | 0 => fuelErrP
  | f + 1 => do
    let firstTok ← curTok
    let firstVar ← parseVar f true
    let c ← curTok
    if c.type == .COMMA || c.type == .ASSIGN then do
      addHint "assignment" "variables"
      let more ← parseMoreVars f
      let vars := firstVar :: more
      let c2 ← curTok
      if !vars.all isVarNode then perror "Cannot assign to this expression" c2
      else
        switchHint "expressions"
        eat (some .ASSIGN)
        let es ← parseExpList f
        removeHint
        pure (.assign firstTok vars es)
    else
      match firstVar with
      | .call _ fn args => pure (.call firstTok fn args)
      | .method _ fn m args => pure (.method firstTok fn m args)
      | .name _ _ => perror "Unexpected lonely name" c
      | _ => perror "Unexpected lonely expression" c

/-- `while self.current_token.type == TokenType.COMMA:` of `_parse_assignment` -/
def parseMoreVars : Nat → PM (List Expr)
  | 0 => fuelErrP
  | f + 1 => do
    if ← curIs .COMMA then
      eat
      let v ← parseVar f true
      let rest ← parseMoreVars f
      pure (v :: rest)
    else pure []

/-- `_parse_exp`: the ladder -/
def parseExp : Nat → PM Expr
  | 0 => fuelErrP
  | f + 1 => fun s => ladderExp (modelSig (parseAtom f)) ladderLevels powOps (f + 1) s

/-- `_parse_atom` -/
def parseAtom : Nat → PM Expr
  | 0 => fuelErrP
  | f + 1 => do
    let t ← curTok
    match t.type with
    | .NIL => do eat; pure (.nil t)
    | .TRUE => do eat; pure (.bool t true)
    | .FALSE => do eat; pure (.bool t false)
    | .NUMBER => do
      eat
      match t.value with
      | .num n => pure (.number t n)
      | .str _ => pyerr "AssertionError" "Number.from_token"
    | .STRING => do eat; pure (.string t (tokStr t))
    | .ELLIPSIS => do eat; pure (.vararg t)
    | .FUNCTION => do
      addHint "function expression" "definition"
      eat
      let (params, body) ← parseFuncBody f t
      pure (.func t params body)
    | .L_CURL => parseTable f
    | .L_PAREN | .NAME => parseVar f false
    | _ => perror "Unexpected expression" t

/-- `_parse_var` -/
def parseVar : Nat → Bool → PM Expr
  | 0, _ => fuelErrP
  | f + 1, inStatement => do
    let t ← curTok
    let (v, bracketed) ← (do
      if t.type == .NAME then
        addHint "named var" "name"
        let n ← eatName
        pure (n, false)
      else if t.type == .L_PAREN then
        addHint "expression var" "expression"
        eat
        let e ← parseExp f
        eat (some .R_PAREN)
        pure (e, true)
      else perror "Expected a variable" t : PM (Expr × Bool))
    let c ← curTok
    let hasSuffix := suffixStarts.contains c.type
    let v' ← (if hasSuffix then parseVarTerminal f v else pure v)
    let c2 ← curTok
    if inStatement && bracketed && !hasSuffix then perror "Unexpected bracketed expression" c2
    else
      removeHint
      pure v'

/-- `_parse_var_terminal` (with the recursion of `_parse_or_ignore_var_terminal`) -/
def parseVarTerminal : Nat → Expr → PM Expr
  | 0, _ => fuelErrP
  | f + 1, base => do
    let t ← curTok
    let v ← (match t.type with
      | .L_PAREN | .L_CURL | .STRING => do
        addHint "function" "arguments"
        let args ← parseArgs f
        pure (.call t base args)
      | .COLON => do
        addHint "invocation" "name"
        eat
        let n ← eatName
        let args ← parseArgs f
        pure (.method t base n args)
      | .L_BRACKET => do
        addHint "index" "expression"
        eat
        let e ← parseExp f
        eat (some .R_BRACKET)
        pure (.index t base e)
      | .DOT => do
        addHint "index" "name"
        eat
        let n ← eatName
        pure (.namedIndex t base n)
      | _ => pyerr "AssertionError" "parser._parse_var_terminal" : PM Expr)
    let c ← curTok
    let v' ← (if suffixStarts.contains c.type then parseVarTerminal f v else pure v)
    removeHint
    pure v'

/-- `_parse_table_constructor` -/
def parseTable : Nat → PM Expr
  | 0 => fuelErrP
  | f + 1 => do
    let t ← curTok
    addHint "table constructor" "fields"
    eat (some .L_CURL)
    let fields ← parseFields f
    eat (some .R_CURL)
    removeHint
    pure (.table t fields)

/-- the field loop of `_parse_table_constructor` -/
def parseFields : Nat → PM (List Field)
  | 0 => fuelErrP
  | f + 1 => do
    let c ← curTok
    if c.type == .R_CURL || c.type == .EOF then pure []
    else
      let fd ← parseField f
      let c2 ← curTok
      if c2.type == .COMMA || c2.type == .SEMICOLON then
        eat
        let rest ← parseFields f
        pure (fd :: rest)
      else pure [fd]

/-- `_parse_field` -/
def parseField : Nat → PM Field
  | 0 => fuelErrP
  | f + 1 => do
    let t ← curTok
    let n ← nxtTok
    if t.type == .L_BRACKET then
      addHint "explicit table field" "key expression"
      eat
      let k ← parseExp f
      eat (some .R_BRACKET)
      switchHint "value expression"
      eat (some .ASSIGN)
      let v ← parseExp f
      removeHint
      pure (.explicit t k v)
    else if t.type == .NAME && n.type == .ASSIGN then
      addHint "named table field" "name"
      let nm ← eatName
      switchHint "value expression"
      eat (some .ASSIGN)
      let v ← parseExp f
      removeHint
      pure (.named t nm v)
    else
      addHint "numbered table field" "expression"
      let v ← parseExp f
      removeHint
      pure (.numbered t v)

/-- `_parse_args` -/
def parseArgs : Nat → PM (List Expr)
  | 0 => fuelErrP
  | f + 1 => do
    addHint "function call" "arguments"
    let t ← curTok
    let es ← (match t.type with
      | .L_PAREN => do
        eat
        let es ← (do if ← curIs .R_PAREN then pure [] else parseExpList f : PM (List Expr))
        eat (some .R_PAREN)
        pure es
      | .L_CURL => do
        let tb ← parseTable f
        pure [tb]
      | .STRING => do
        eat
        pure [.string t (tokStr t)]
      | _ => perror "Expected function arguments" t : PM (List Expr))
    removeHint
    pure es
end

/-- `parse_chunk` -/
def parseChunk (fuel : Nat) : PM Block := do
  let t ← curTok
  let b ← parseBlock fuel t false
  match b with
  | .mk tk ss rs _ => pure (.mk tk ss rs true)

/-- `parse(chunk)` up to (not including) `ast.parent(None)`; also returns the final hint stack -/
def parseText (text : List Char) : Except PyErr (Block × List Hint) :=
  match initParser {} text with
  | .error e => .error e
  | .ok s0 =>
    match (do let b ← parseChunk (5 * text.length + 64); assertTok .EOF; pure b : PM Block) s0 with
    | .error e => .error e
    | .ok (b, s1) => .ok (b, s1.hints)

end Tumfl.Model
