import Tumfl.Model.Parser
/-!
# Model of `tumfl/dependency_resolver.py` over an abstract file system

The file system is a finite map from paths (lists of components below a root) to file contents, plus a set of
directories.  `ResolveDependencies` is a `NoneWalker` that rewrites the tree in place; the model returns the
rewritten tree and threads the `found` table.  The traversal order is `BasicWalker`/`NoneWalker`'s (e.g. the right
operand of a binary operator before the left one), because it decides which `require` of a file is "the first".
Module names containing `/` and absolute paths are outside the model.
-/
namespace Tumfl.Model

abbrev Path := List String

structure FS where
  files : List (Path × List Char)
  dirs : List Path

def FS.isFile (fs : FS) (p : Path) : Bool := (fs.files.lookup p).isSome
def FS.read (fs : FS) (p : Path) : Option (List Char) := fs.files.lookup p

/-- `str.split(".")` -/
def splitDots (s : List Char) : List (List Char) :=
  let rec go : List Char → List Char → List (List Char)
    | [], cur => [cur.reverse]
    | c :: cs, cur => if c == '.' then cur.reverse :: go cs [] else go cs (c :: cur)
  go s []

/-- `_find_file_in_path`: start directory, then the search paths; suffixes "", ".tl", ".lua" -/
def findFileInPath (fs : FS) (searchPath : List Path) (name : List Char) (startDir : Path) : Option Path :=
  let parts := splitDots name
  match parts with
  | [] => none
  | p0 :: rest =>
    if p0.isEmpty then none
    else
      -- `Path(p0) / p1 / ...`: empty components vanish
      let comps : List String := (p0 :: rest).filter (!·.isEmpty) |>.map String.ofList
      let cands : List Path := (startDir :: searchPath).flatMap fun d =>
        ["", ".tl", ".lua"].map fun sfx =>
          match comps.reverse with
          | last :: init => d ++ init.reverse ++ [last ++ sfx]
          | [] => d
      cands.find? fs.isFile

structure RSt where
  found : List Path

abbrev RM := StateT RSt (Except PyErr)

def rfuel {α : Type} : RM α := fun _ => .error .fuel
def rthrow {α : Type} (e : PyErr) : RM α := fun _ => .error e

/-- `_get_block_dependency_path` -/
def getDependencyPath (fs : FS) (sp : List Path) (name : List Char) (startDir : Path) (tok : Token) (dedup : Bool) : RM (Option Path) := fun st =>
  match findFileInPath fs sp name startDir with
  | none => .error (.dependency "Could not find dependency" tok)
  | some p =>
    if dedup && st.found.contains p then .ok (none, st)
    else .ok (some p, { found := if st.found.contains p then st.found else st.found ++ [p] })

/-- `_parse_file`: the model parser on the file's content -/
def parseFile (fs : FS) (p : Path) : RM Block := fun st =>
  match fs.read p with
  | none => .error (.py "FileNotFoundError" "dependency_resolver._parse_file")
  | some text =>
    match parseText text with
    | .error e => .error e
    | .ok (b, _) => .ok (b, st)

def isRequireName : Expr → Bool
  | .name _ n => n == "require".toList
  | _ => false

def dirOf (p : Path) : Path := p.dropLast

mutual
/-- `visit` on an expression; `dir` is the directory of the file the node came from (`node.file_name.parent`) -/
def resolveExpr (fs : FS) (sp : List Path) : Nat → Path → Expr → RM Expr
  | 0, _, _ => rfuel
  | f + 1, dir, e =>
    match e with
    | .func t ps body => do
      let ps' ← resolveExprs fs sp f dir ps
      let body' ← resolveBlock fs sp f dir body
      pure (.func t ps' body')
    | .table t fs' => do
      let fields ← resolveFields fs sp f dir fs'
      pure (.table t fields)
    | .binop t o l r => do
      -- BasicWalker.visit_BinOp: right first
      let r' ← resolveExpr fs sp f dir r
      let l' ← resolveExpr fs sp f dir l
      pure (.binop t o l' r')
    | .unop t o x => do
      let x' ← resolveExpr fs sp f dir x
      pure (.unop t o x')
    | .index t l k => do
      let l' ← resolveExpr fs sp f dir l
      let k' ← resolveExpr fs sp f dir k
      pure (.index t l' k')
    | .namedIndex t l n => do
      let l' ← resolveExpr fs sp f dir l
      let n' ← resolveExpr fs sp f dir n
      pure (.namedIndex t l' n')
    | .call t fn args =>
      if isRequireName fn then
        -- `__get_ast(node, deduplicate=False)`
        match args with
        | [.string _ name] => do
          let p ← getDependencyPath fs sp name dir t false
          match p with
          | none => rthrow (.py "AssertionError" "dependency_resolver.visit_ExpFunctionCall")
          | some path => do
            let ast ← parseFile fs path
            let chunk := match ast with | .mk tk ss rs _ => Block.mk tk ss rs true
            -- function = ExpFunctionDefinition(node.token, [], ast); self.visit(function)
            let body' ← resolveBlock fs sp f (dirOf path) chunk
            pure (.call t (.func t [] body') args)
        | _ => rthrow (.dependency "Wrong require() arguments" t)
      else do
        let fn' ← resolveExpr fs sp f dir fn
        let args' ← resolveExprs fs sp f dir args
        pure (.call t fn' args')
    | .method t fn m args => do
      let fn' ← resolveExpr fs sp f dir fn
      let m' ← resolveExpr fs sp f dir m
      let args' ← resolveExprs fs sp f dir args
      pure (.method t fn' m' args')
    | e => pure e

def resolveExprs (fs : FS) (sp : List Path) : Nat → Path → List Expr → RM (List Expr)
  | 0, _, _ => rfuel
  | _ + 1, _, [] => pure []
  | f + 1, dir, e :: es => do
    let e' ← resolveExpr fs sp f dir e
    let es' ← resolveExprs fs sp f dir es
    pure (e' :: es')

def resolveFields (fs : FS) (sp : List Path) : Nat → Path → List Field → RM (List Field)
  | 0, _, _ => rfuel
  | _ + 1, _, [] => pure []
  | f + 1, dir, fd :: rest => do
    let fd' ← (match fd with
      | .explicit t k v => do
        let k' ← resolveExpr fs sp f dir k
        let v' ← resolveExpr fs sp f dir v
        pure (.explicit t k' v')
      | .named t n v => do
        let n' ← resolveExpr fs sp f dir n
        let v' ← resolveExpr fs sp f dir v
        pure (.named t n' v')
      | .numbered t v => do
        let v' ← resolveExpr fs sp f dir v
        pure (.numbered t v') : RM Field)
    let rest' ← resolveFields fs sp f dir rest
    pure (fd' :: rest')

/-- `visit_Block` / `visit_Chunk`: statements, then the return values -/
def resolveBlock (fs : FS) (sp : List Path) : Nat → Path → Block → RM Block
  | 0, _, _ => rfuel
  | f + 1, dir, .mk t ss rs c => do
    let ss' ← resolveStmts fs sp f dir ss
    let rs' ← (match rs with
      | some es => do let es' ← resolveExprs fs sp f dir es; pure (some es')
      | none => pure none : RM (Option (List Expr)))
    pure (.mk t ss' rs' c)

def resolveStmts (fs : FS) (sp : List Path) : Nat → Path → List Stmt → RM (List Stmt)
  | 0, _, _ => rfuel
  | _ + 1, _, [] => pure []
  | f + 1, dir, s :: rest => do
    let s' ← resolveStmt fs sp f dir s
    let rest' ← resolveStmts fs sp f dir rest
    pure (s' :: rest')

def resolveOptExpr (fs : FS) (sp : List Path) : Nat → Path → Option Expr → RM (Option Expr)
  | 0, _, _ => rfuel
  | _ + 1, _, none => pure none
  | f + 1, dir, some e => do let e' ← resolveExpr fs sp f dir e; pure (some e')

def resolveStmt (fs : FS) (sp : List Path) : Nat → Path → Stmt → RM Stmt
  | 0, _, _ => rfuel
  | f + 1, dir, s =>
    match s with
    | .assign t ts es => do
      let ts' ← resolveExprs fs sp f dir ts
      let es' ← resolveExprs fs sp f dir es
      pure (.assign t ts' es')
    | .block b => do
      let b' ← resolveBlock fs sp f dir b
      pure (.block b')
    | .call t fn args =>
      if isRequireName fn then
        match args with
        | [.string _ name] => do
          let p ← getDependencyPath fs sp name dir t true
          match p with
          | none => pure (.semi t)
          | some path => do
            let ast ← parseFile fs path
            let chunk := match ast with | .mk tk ss rs _ => Block.mk tk ss rs true
            let chunk' ← resolveBlock fs sp f (dirOf path) chunk
            pure (.block chunk')
        | _ => rthrow (.dependency "Wrong require() arguments" t)
      else do
        let fn' ← resolveExpr fs sp f dir fn
        let args' ← resolveExprs fs sp f dir args
        pure (.call t fn' args')
    | .funcDef t ns m ps body => do
      let ns' ← resolveExprs fs sp f dir ns
      let m' ← resolveOptExpr fs sp f dir m
      let ps' ← resolveExprs fs sp f dir ps
      let body' ← resolveBlock fs sp f dir body
      pure (.funcDef t ns' m' ps' body')
    | .goto t l => do let l' ← resolveExpr fs sp f dir l; pure (.goto t l')
    | .label t n => do let n' ← resolveExpr fs sp f dir n; pure (.label t n')
    | .iff t c tr fl => do
      let c' ← resolveExpr fs sp f dir c
      let tr' ← resolveBlock fs sp f dir tr
      let fl' ← resolveFalse fs sp f dir fl
      pure (.iff t c' tr' fl')
    | .iterFor t ns es body => do
      let ns' ← resolveExprs fs sp f dir ns
      let es' ← resolveExprs fs sp f dir es
      let body' ← resolveBlock fs sp f dir body
      pure (.iterFor t ns' es' body')
    | .localAssign t ns es => do
      let es' ← (match es with
        | some es => do let es' ← resolveExprs fs sp f dir es; pure (some es')
        | none => pure none : RM (Option (List Expr)))
      pure (.localAssign t ns es')
    | .localFunc t n ps body => do
      let n' ← resolveExpr fs sp f dir n
      let ps' ← resolveExprs fs sp f dir ps
      let body' ← resolveBlock fs sp f dir body
      pure (.localFunc t n' ps' body')
    | .method t fn m args => do
      let fn' ← resolveExpr fs sp f dir fn
      let m' ← resolveExpr fs sp f dir m
      let args' ← resolveExprs fs sp f dir args
      pure (.method t fn' m' args')
    | .numFor t v a b st body => do
      let v' ← resolveExpr fs sp f dir v
      let a' ← resolveExpr fs sp f dir a
      let b' ← resolveExpr fs sp f dir b
      let st' ← resolveOptExpr fs sp f dir st
      let body' ← resolveBlock fs sp f dir body
      pure (.numFor t v' a' b' st' body')
    | .repeat t c body => do
      -- BasicWalker.visit_Repeat: condition first, then the body
      let c' ← resolveExpr fs sp f dir c
      let body' ← resolveBlock fs sp f dir body
      pure (.repeat t c' body')
    | .whl t c body => do
      let c' ← resolveExpr fs sp f dir c
      let body' ← resolveBlock fs sp f dir body
      pure (.whl t c' body')
    | s => pure s

def resolveFalse (fs : FS) (sp : List Path) : Nat → Path → IfFalse → RM IfFalse
  | 0, _, _ => rfuel
  | _ + 1, _, .none => pure .none
  | f + 1, dir, .block b => do let b' ← resolveBlock fs sp f dir b; pure (.block b')
  | f + 1, dir, .elif t c tr fl => do
    let c' ← resolveExpr fs sp f dir c
    let tr' ← resolveBlock fs sp f dir tr
    let fl' ← resolveFalse fs sp f dir fl
    pure (.elif t c' tr' fl')
end

/-- `resolve_recursive(path, search_path)` -/
def resolveRecursive (fs : FS) (main : Path) (sp : List Path) (fuel : Nat) : Except PyErr Block :=
  match (do let ast ← parseFile fs main; resolveBlock fs sp fuel (dirOf main) ast : RM Block) { found := [] } with
  | .error e => .error e
  | .ok (b, _) => .ok b

end Tumfl.Model
