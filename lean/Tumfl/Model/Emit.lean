import Tumfl.Model.Ast
import Tumfl.Model.Brackets
import Tumfl.Gen.FmtTables
/-!
# Model of `Formatter.visit` (`tumfl/formatter.py`, lines 94-467): AST -> pieces

One definition per `visit_*` / helper method.  The bracket decisions of `visit_BinOp` / `visit_UnOp`
are not re-modelled: the model consults the tables extracted from the real formatter
(`Model.needBin`, `needUn`, `unSpace`).  `Number.__str__` is in this file as `numberStr`.
-/
namespace Tumfl.Model
open Tumfl.Spec

inductive Sep
  | statement | newline | argument | space | dot | indent | deindent | block
  deriving DecidableEq, Repr, Inhabited

inductive Piece
  | str (s : List Char)
  | sep (s : Sep)
  deriving DecidableEq, Repr, Inhabited

abbrev Pieces := List Piece

/-- `FormattingStyle` -/
structure Style where
  statementSeparator : List Char
  indentation : List Char
  argumentSeparator : List Char
  includeComments : Bool
  commentSep : List Char
  useSingleQuote : Bool
  useCallShorthand : Bool
  removeUnnecessaryChars : Bool
  addAllBrackets : Bool
  addCloseBrackets : Bool
  spaceInTable : Bool
  newlineLimit : Nat
  lineWidth : Nat
  blockSpacer : Nat
  keepSemicolon : Bool
  deriving Repr, DecidableEq

def Style.brOpts (s : Style) : BrOpts := ⟨s.addAllBrackets, s.addCloseBrackets, s.removeUnnecessaryChars⟩

def P (s : String) : Piece := .str s.toList
def S (x : Sep) : Piece := .sep x

/-- `Separators.join` -/
def joinSep (sep : Sep) : List Pieces → Pieces
  | [] => []
  | [x] => x
  | x :: rest => x ++ S sep :: joinSep sep rest

/-- substring test (`needle in hay`) -/
def isPrefix : List Char → List Char → Bool
  | [], _ => true
  | _ :: _, [] => false
  | a :: as, b :: bs => a == b && isPrefix as bs

def containsSub (needle : List Char) : List Char → Bool
  | [] => needle.isEmpty
  | c :: cs => isPrefix needle (c :: cs) || containsSub needle cs

def endsWith (s suffix : List Char) : Bool := isPrefix suffix.reverse s.reverse

def repeatChar (c : Char) (n : Nat) : List Char := List.replicate n c

/-- `_find_level`; the loop ends because a text of length n cannot contain a bracket longer than n+2 -/
def findLevelLoop (toCheck : List Char) : Nat → Nat → Nat
  | 0, level => level
  | f + 1, level =>
    let eqs := repeatChar '=' level
    let closing := ']' :: eqs ++ [']']
    let opening := '[' :: eqs ++ ['[']
    if !containsSub opening toCheck && !containsSub closing (toCheck ++ closing.dropLast) then level
    else findLevelLoop toCheck f (level + 1)

def findLevel (toCheck : List Char) : Nat :=
  findLevelLoop toCheck (toCheck.length + 3) (if endsWith toCheck [']'] then 1 else 0)

def isLuaSpacePy (c : Char) : Bool := Gen.pyIsSpace.contains c.toNat

/-- Python `str.strip()` -/
def pyStrip (s : List Char) : List Char :=
  ((s.dropWhile isLuaSpacePy).reverse.dropWhile isLuaSpacePy).reverse

def startsWith (s p : List Char) : Bool := isPrefix p s

/-- `_format_comment` (force_long is never passed by the callers) -/
def formatComment (sty : Style) (comment0 : List Char) : Pieces :=
  let comment := pyStrip comment0
  let opensBracket := sty.commentSep.isEmpty && startsWith comment ['['] &&
    startsWith ((comment.drop 1).dropWhile (· == '=')) ['[']
  if comment.contains '\n' || opensBracket then
    let level := findLevel comment
    let eqs := repeatChar '=' level
    [.str ("--[".toList ++ eqs ++ ['['] ++ comment ++ [']'] ++ eqs ++ [']']), S .statement]
  else [.str ("--".toList ++ sty.commentSep ++ comment), S .newline]

def hexDigitLower (n : Nat) : Char := if n < 10 then Char.ofNat (48 + n) else Char.ofNat (87 + n)

def natToHex : Nat → Nat → List Char
  | 0, _ => []
  | f + 1, n => if n < 16 then [hexDigitLower n] else natToHex f (n / 16) ++ [hexDigitLower (n % 16)]

def hex2 (n : Nat) : List Char := [hexDigitLower (n / 16 % 16), hexDigitLower (n % 16)]

/-- the escaping loop of `visit_String` for one character -/
def escapeChar (quote : Char) (c : Char) : List Char :=
  if c == quote || c == '\\' then ['\\', c]
  else if 32 ≤ c.toNat && c.toNat < 127 then [c]
  else
    match Gen.escapeCharacters.lookup c with
    | some l => ['\\', l]
    | none =>
      if c.toNat < 128 then '\\' :: 'x' :: hex2 c.toNat
      else "\\u{".toList ++ natToHex 8 c.toNat ++ ['}']

/-- `visit_String` -/
def visitString (sty : Style) (v : List Char) : Pieces :=
  let newlines := v.count '\n'
  let singles := v.count '\''
  let doubles := v.count '"'
  let unprintable := v.any fun c => c != '\n' && c != '\'' && c != '"' && !(32 ≤ c.toNat && c.toNat < 127)
  if newlines > sty.newlineLimit && !unprintable && !containsSub [' ', '\n'] v then
    let level := findLevel v
    let eqs := repeatChar '=' level
    let start := if startsWith v ['\n'] then ['\n'] else []
    [.str (('[' :: eqs ++ ['[']) ++ start ++ v ++ (']' :: eqs ++ [']']))]
  else
    let quote := if sty.useSingleQuote && singles < doubles then '\'' else '"'
    [.str (quote :: (v.flatMap (escapeChar quote)) ++ [quote])]

/-- `Number.__str__` -/
def numberStr (n : NumTuple) : List Char :=
  let truthy (o : Option (List Char)) : Option (List Char) := match o with | some s => if s.isEmpty then none else some s | none => none
  (if n.isHex then "0x".toList else []) ++
  (match truthy n.ip with | some s => s | none => if n.isHex then ['1'] else ['0']) ++
  (match truthy n.fp with | some s => '.' :: s | none => []) ++
  (match truthy n.ex with | some s => 'e' :: s | none => []) ++
  (match truthy n.fo with | some s => 'p' :: s | none => [])

def Expr.kind : Expr → K
  | .binop _ o _ _ => .bin o
  | .unop _ o _ => .un o
  | _ => .atom

def isVarLike : Expr → Bool
  | .name _ _ | .index _ _ _ | .namedIndex _ _ _ | .call _ _ _ | .method _ _ _ _ => true
  | _ => false

def nameStr : Expr → List Char
  | .name _ n => n
  | _ => []

def wrapParens (ps : Pieces) : Pieces := P "(" :: ps ++ [P ")"]

/-- Python `xs[a:len-b]` -/
def sliceInner (a b : Nat) (xs : Pieces) : Pieces := (xs.take (xs.length - b)).drop a

/-- `_format_var`, given the pieces of `visit(var)` -/
def fmtVar (e : Expr) (ps : Pieces) : Pieces := if isVarLike e then ps else wrapParens ps

/-- `_format_key`, given the pieces of `visit(key)` -/
def fmtKey (r : Pieces) : Pieces :=
  match r with
  | .str s :: _ => if startsWith s ['['] then S .space :: r else r
  | _ => r

/-- `_format_function_args`, given the pieces of `_format_args(args)` (for one argument: of `visit(args[0])`) -/
def fmtFunctionArgs (sty : Style) (args : List Expr) (ps : Pieces) : Pieces :=
  match args with
  | [.string _ _] | [.table _ _] => if sty.useCallShorthand then ps else wrapParens ps
  | _ => wrapParens ps

def attName (n : Expr) (a : Option Expr) : Pieces :=
  match a with
  | some att => [.str (nameStr n), S .space, P "<", .str (nameStr att), P ">"]
  | none => [.str (nameStr n)]

/-- the names of `visit_LocalAssign` -/
def visitAttNames : List AttName → Pieces
  | [] => []
  | [.mk n a] => attName n a
  | .mk n a :: rest => attName n a ++ S .argument :: visitAttNames rest

/-- `statement.comment` -/
def stmtComments : Stmt → List (List Char)
  | .assign t _ _ | .brk t | .call t _ _ | .funcDef t _ _ _ _ | .goto t _ | .label t _ | .iff t _ _ _
  | .iterFor t _ _ _ | .localAssign t _ _ | .localFunc t _ _ _ | .method t _ _ _ | .numFor t _ _ _ _ _
  | .repeat t _ _ | .semi t | .whl t _ _ => t.comment
  | .block (.mk t _ _ _) => t.comment

def Block.isChunk : Block → Bool | .mk _ _ _ c => c

/-- `visit(node)` for a block node, given `visit_Block(node)`: `visit_Chunk` is `visit_Block(node)[3:-3]` -/
def blk (b : Block) (full : Pieces) : Pieces := if b.isChunk then sliceInner 3 3 full else full

mutual
/-- `Formatter.visit` on expressions -/
def visitExpr (sty : Style) : Expr → Pieces
  | .nil _ => [P "nil"]
  | .bool _ v => [P (if v then "true" else "false")]
  | .vararg _ => [P "..."]
  | .number _ n => [.str (numberStr n)]
  | .string _ v => visitString sty v
  | .func _ ps body =>
    [P "function", S .space, P "("] ++ visitArgs sty ps ++ [P ")"] ++ (visitBlockFull sty body).drop 1
  | .table _ fs => P "{" :: visitFields sty fs ++ [P "}"]
  | .binop _ o l r =>
    let lp := visitExpr sty l
    let rp := visitExpr sty r
    (if needBin sty.brOpts o true l.kind then wrapParens lp else lp) ++
    [S .space, .str o.sym.toList, S .space] ++
    (if needBin sty.brOpts o false r.kind then wrapParens rp else rp)
  | .unop _ u e =>
    let ep := visitExpr sty e
    .str u.sym.toList ::
      (if needUn sty.brOpts u e.kind then wrapParens ep
       else if unSpace sty.brOpts u e.kind then S .space :: ep
       else ep)
  | .name _ n => [.str n]
  | .index _ lhs key => fmtVar lhs (visitExpr sty lhs) ++ [P "["] ++ fmtKey (visitExpr sty key) ++ [P "]"]
  | .namedIndex _ lhs nm => fmtVar lhs (visitExpr sty lhs) ++ [S .dot] ++ visitExpr sty nm
  | .call _ f args => fmtVar f (visitExpr sty f) ++ fmtFunctionArgs sty args (visitArgs sty args)
  | .method _ f m args => fmtVar f (visitExpr sty f) ++ [P ":"] ++ visitExpr sty m ++ fmtFunctionArgs sty args (visitArgs sty args)

/-- `_format_args` on expressions: `Separators.Argument.join(self.visit(arg) for arg in arguments)` -/
def visitArgs (sty : Style) : List Expr → Pieces
  | [] => []
  | [e] => visitExpr sty e
  | e :: e2 :: rest => visitExpr sty e ++ S .argument :: visitArgs sty (e2 :: rest)

/-- `_format_args` on table fields -/
def visitFields (sty : Style) : List Field → Pieces
  | [] => []
  | [f] => visitField sty f
  | f :: f2 :: rest => visitField sty f ++ S .argument :: visitFields sty (f2 :: rest)

def visitField (sty : Style) : Field → Pieces
  | .explicit _ k v => [P "["] ++ fmtKey (visitExpr sty k) ++ [P "]", S .space, P "=", S .space] ++ visitExpr sty v
  | .named _ n v => visitExpr sty n ++ [S .space, P "=", S .space] ++ visitExpr sty v
  | .numbered _ v => visitExpr sty v

/-- `visit_Block` (also used for a `Chunk` by the function printers) -/
def visitBlockFull (sty : Style) : Block → Pieces
  | .mk _ stmts rets _ =>
    [P "do", S .block, S .indent] ++ visitStmts sty true stmts ++
    (match rets with
     | some es => [P "return"] ++ (if es.isEmpty then [] else [S .space]) ++ visitArgs sty es ++ [S .statement]
     | none => []) ++
    [S .deindent, P "end"]

/-- the statement loop of `visit_Block`; `first` tells whether the statement is `node.statements[0]` -/
def visitStmts (sty : Style) : Bool → List Stmt → Pieces
  | _, [] => []
  | first, s :: rest =>
    let cps : Pieces := if sty.includeComments then (stmtComments s).flatMap (formatComment sty) else []
    let toks := visitStmt sty s
    let guard : Pieces := match toks with
      | .str ['('] :: _ => if first then [] else [P ";"]
      | _ => []
    cps ++ guard ++ toks ++ [S .statement] ++ visitStmts sty false rest

/-- `Formatter.visit` on statements -/
def visitStmt (sty : Style) : Stmt → Pieces
  | .assign _ ts es =>
    visitTargets sty ts ++ [S .space, P "=", S .space] ++ visitArgs sty es
  | .block b => blk b (visitBlockFull sty b)
  | .brk _ => [P "break"]
  | .call _ f args => fmtVar f (visitExpr sty f) ++ fmtFunctionArgs sty args (visitArgs sty args)
  | .funcDef _ names m ps body =>
    [S .newline, P "function", S .space] ++ visitDotted sty names ++
    (match m with | some mn => P ":" :: visitExpr sty mn | none => []) ++
    [P "("] ++ visitArgs sty ps ++ [P ")"] ++ (visitBlockFull sty body).drop 1 ++ [S .block, S .newline]
  | .goto _ l => [P "goto", S .space] ++ visitExpr sty l
  | .label _ n => P "::" :: visitExpr sty n ++ [P "::"]
  | .iff _ test tr fl =>
    [P "if", S .space] ++ visitExpr sty test ++ [S .space, P "then", S .block] ++
    sliceInner 2 1 (blk tr (visitBlockFull sty tr)) ++ visitFalse sty fl ++ [P "end"]
  | .iterFor _ ns es body =>
    [P "for", S .space] ++ visitArgs sty ns ++ [S .space, P "in", S .space] ++ visitArgs sty es ++ [S .space] ++
    blk body (visitBlockFull sty body)
  | .localAssign _ names es =>
    [P "local", S .space] ++ visitAttNames names ++
    (match es with
     | some (e :: rest) => [S .space, P "=", S .space] ++ visitArgs sty (e :: rest)
     | _ => [])
  | .localFunc _ n ps body =>
    [S .newline, P "local", S .space, P "function", S .space] ++ visitExpr sty n ++ [P "("] ++ visitArgs sty ps ++ [P ")"] ++
    (visitBlockFull sty body).drop 1 ++ [S .statement, S .newline]
  | .method _ f m args => fmtVar f (visitExpr sty f) ++ [P ":"] ++ visitExpr sty m ++ fmtFunctionArgs sty args (visitArgs sty args)
  | .numFor _ v a b step body =>
    [P "for", S .space] ++ visitExpr sty v ++ [S .space, P "=", S .space] ++ visitExpr sty a ++ [S .argument] ++ visitExpr sty b ++
    (match step with | some s => S .argument :: visitExpr sty s | none => []) ++ [S .space] ++ blk body (visitBlockFull sty body)
  | .repeat _ c body =>
    [P "repeat", S .block] ++ sliceInner 2 1 (blk body (visitBlockFull sty body)) ++ [P "until", S .space] ++ visitExpr sty c
  | .semi _ => if sty.keepSemicolon then [P ";"] else []
  | .whl _ c body => [P "while", S .space] ++ visitExpr sty c ++ [S .space] ++ blk body (visitBlockFull sty body)

/-- the `elseif` / `else` chain of `visit_If` -/
def visitFalse (sty : Style) : IfFalse → Pieces
  | .none => []
  | .block b => [P "else", S .block] ++ sliceInner 2 1 (blk b (visitBlockFull sty b))
  | .elif _ test tr fl =>
    [P "elseif", S .space] ++ visitExpr sty test ++ [S .space, P "then", S .block] ++
    sliceInner 2 1 (blk tr (visitBlockFull sty tr)) ++ visitFalse sty fl

/-- `Separators.Argument.join(self._format_var(var) for var in node.targets)` -/
def visitTargets (sty : Style) : List Expr → Pieces
  | [] => []
  | [e] => fmtVar e (visitExpr sty e)
  | e :: e2 :: rest => fmtVar e (visitExpr sty e) ++ S .argument :: visitTargets sty (e2 :: rest)

/-- `Separators.Dot.join(self.visit(name) for name in node.names)` -/
def visitDotted (sty : Style) : List Expr → Pieces
  | [] => []
  | [e] => visitExpr sty e
  | e :: e2 :: rest => visitExpr sty e ++ S .dot :: visitDotted sty (e2 :: rest)
end

/-- `Formatter(style).visit(ast)` for the root node -/
def emit (sty : Style) (b : Block) : Pieces := blk b (visitBlockFull sty b)

end Tumfl.Model
