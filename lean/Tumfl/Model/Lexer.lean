import Tumfl.Model.Basic
/-!
# Model of `tumfl/lexer.py` (hand-transcribed, one definition per Python method)

State passing instead of mutation: `LexSt` holds what the Python object holds - the remaining text
(`rest`, whose head is `current_char`), `line`, `column` (0-based, `-1` after a newline, exactly as
`advance` maintains them), the last consumed character (`text[pos-1]`), and the pending comments.
Loops take fuel; every fuel bound is the length of the remaining text plus a constant.
Python exceptions are values (`PyErr`); a site where the Python code would raise a built-in
exception by accident is `.py ..`, never totalised away.
-/
namespace Tumfl.Model

structure LexSt where
  rest : List Char
  line : Nat
  col : Int
  prev : Option Char
  comments : List (List Char)
  deriving Repr

def LexSt.cur (s : LexSt) : Option Char := s.rest.head?

/-- `Lexer.peek` -/
def LexSt.peek (s : LexSt) : Option Char :=
  match s.rest with
  | _ :: c :: _ => some c
  | _ => none

/-- `Lexer.advance` (the `newline_warn` bookkeeping has no observable effect and is omitted) -/
def advance (s : LexSt) : LexSt :=
  match s.rest with
  | [] => s
  | c :: r =>
    match r with
    | [] => { s with rest := [], prev := some c }
    | d :: _ =>
      if d == '\n' then { s with rest := r, prev := some c, line := s.line + 1, col := -1 }
      else { s with rest := r, prev := some c, col := s.col + 1 }

/-- `Lexer.__init__`: position before the text, then one `advance` -/
def initLex (text : List Char) : LexSt :=
  match text with
  | [] => { rest := [], line := 0, col := -1, prev := none, comments := [] }
  | c :: _ =>
    if c == '\n' then { rest := text, line := 1, col := -1, prev := none, comments := [] }
    else { rest := text, line := 0, col := 0, prev := none, comments := [] }

def lexError {α : Type} (msg : String) (s : LexSt) : Except PyErr α := .error (.lexer msg s.line s.col)
def lexErrorAt {α : Type} (msg : String) (line : Nat) (col : Int) : Except PyErr α := .error (.lexer msg line col)

def inStr (c : Option Char) (set : List Char) : Bool :=
  match c with | some x => set.contains x | none => false

/-- `skip_whitespace` -/
def skipWhitespace : Nat → LexSt → LexSt
  | 0, s => s
  | f + 1, s => if inStr s.cur Gen.whitespace then skipWhitespace f (advance s) else s

/-- `_is_long_bracket`: after the current `[`, some `=` and then `[` -/
def isLongBracketAux : List Char → Bool
  | '=' :: r => isLongBracketAux r
  | '[' :: _ => true
  | _ => false

def isLongBracket (s : LexSt) : Bool := isLongBracketAux s.rest.tail

/-- the `while self.current_char == "="` loop -/
def countEquals : Nat → LexSt → Nat → Nat × LexSt
  | 0, s, n => (n, s)
  | f + 1, s, n => if s.cur == some '=' then countEquals f (advance s) (n + 1) else (n, s)

/-- Python `inner_string[: -equals - 1]` -/
def dropLast (k : Nat) (xs : List Char) : List Char := xs.take (xs.length - k)

/-- the body loop of `get_long_brackets`; `ce` is `closing_equals` (`none` for -1) -/
def longBody (equals : Nat) (line0 : Nat) (col0 : Int) :
    Nat → LexSt → Option Nat → List Char → Except PyErr (List Char × LexSt)
  | 0, _, _, _ => .error .fuel
  | f + 1, s, ce, acc =>
    match s.cur with
    | none => lexErrorAt "long brackets never closed" line0 col0
    | some c =>
      if c == ']' && ce == some equals then .ok (dropLast (equals + 1) acc.reverse, advance s)
      else
        let ce' : Option Nat :=
          if c == '=' && ce.isSome then ce.map (· + 1)
          else if c == ']' then some 0
          else none
        longBody equals line0 col0 f (advance s) ce' (c :: acc)

/-- `get_long_brackets` -/
def getLongBrackets (s : LexSt) : Except PyErr (List Char × LexSt) :=
  if !(s.cur == some '[' && (s.peek == some '=' || s.peek == some '[')) then .error (.py "AssertionError" "lexer.get_long_brackets")
  else
    let line0 := s.line
    let col0 := s.col
    let s1 := advance s
    let (equals, s2) := countEquals (s1.rest.length + 1) s1 0
    if s2.cur != some '[' then lexError "Malformed long bracket" s2
    else
      let s3 := advance s2
      let s4 := if s3.cur == some '\n' then advance s3 else s3
      longBody equals line0 col0 (s4.rest.length + 1) s4 none []

/-- the short-comment loop of `skip_comment` -/
def shortComment : Nat → LexSt → List Char → List Char × LexSt
  | 0, s, acc => (acc.reverse, s)
  | f + 1, s, acc =>
    match s.cur with
    | some c => if c != '\n' then shortComment f (advance s) (c :: acc) else (acc.reverse, s)
    | none => (acc.reverse, s)

/-- `skip_comment` -/
def skipComment (s : LexSt) : Except PyErr LexSt :=
  if !(s.cur == some '-' && s.peek == some '-') then .error (.py "AssertionError" "lexer.skip_comment")
  else
    let s2 := advance (advance s)
    if s2.cur == some '[' && isLongBracket s2 then
      match getLongBrackets s2 with
      | .error e => .error e
      | .ok (c, s3) => .ok { s3 with comments := s3.comments ++ [c] }
    else
      let (c, s3) := shortComment (s2.rest.length + 1) s2 []
      .ok { s3 with comments := s3.comments ++ [c] }

def lowerChar (c : Char) : Char := if 'A' ≤ c && c ≤ 'Z' then Char.ofNat (c.toNat + 32) else c

/-- a `while self.current_char in set: result += self.current_char(.lower()); advance` loop -/
def takeWhileIn (set : List Char) (lower : Bool) : Nat → LexSt → List Char → List Char × LexSt
  | 0, s, acc => (acc.reverse, s)
  | f + 1, s, acc =>
    match s.cur with
    | some c => if set.contains c then takeWhileIn set lower f (advance s) ((if lower then lowerChar c else c) :: acc) else (acc.reverse, s)
    | none => (acc.reverse, s)

def optStr (xs : List Char) : Option (List Char) := if xs.isEmpty then none else some xs

/-- `get_number`: the 5-tuple `(is_hex, integer_part, fractional_part, exponent, float_offset)` -/
def getNumber (s : LexSt) : NumTuple × LexSt :=
  let fuel := s.rest.length + 1
  -- integer part
  let (isHex, ip, s1) : Bool × Option (List Char) × LexSt :=
    if inStr s.cur Gen.number then
      let (isHex, digs, s0) : Bool × List Char × LexSt :=
        if s.cur == some '0' && (s.peek == some 'x' || s.peek == some 'X') then (true, Gen.hexNumber, advance (advance s))
        else (false, Gen.number, s)
      let (r, s1) := takeWhileIn digs true fuel s0 []
      (isHex, optStr r, s1)
    else (false, none, s)
  let digs := if isHex then Gen.hexNumber else Gen.number
  -- fractional part
  let (fp, s2) : Option (List Char) × LexSt :=
    if s1.cur == some '.' then
      let (r, s2) := takeWhileIn digs true fuel (advance s1) []
      (optStr r, s2)
    else (none, s1)
  -- exponent / float offset
  let isMark := if isHex then (s2.cur == some 'p' || s2.cur == some 'P') else (s2.cur == some 'e' || s2.cur == some 'E')
  if isMark then
    let s3 := advance s2
    let (sign, s4) : List Char × LexSt :=
      match s3.cur with
      | some c => if c == '+' || c == '-' then ([c], advance s3) else ([], s3)
      | none => ([], s3)
    let (ds, s5) := takeWhileIn Gen.number false fuel s4 []
    let r := sign ++ ds
    if !r.isEmpty && isHex then ({ isHex := isHex, ip := ip, fp := fp, ex := none, fo := some r }, s5)
    else if !r.isEmpty then ({ isHex := isHex, ip := ip, fp := fp, ex := some r, fo := none }, s5)
    else ({ isHex := isHex, ip := ip, fp := fp, ex := none, fo := none }, s5)
  else ({ isHex := isHex, ip := ip, fp := fp, ex := none, fo := none }, s2)

/-- `get_name` -/
def getName (s : LexSt) : Except PyErr (List Char × LexSt) :=
  if !inStr s.cur Gen.letter then .error (.py "AssertionError" "lexer.get_name")
  else .ok (takeWhileIn Gen.alphanumeric false (s.rest.length + 1) s [])

/-- `_safe_decode`: `bytes((base,)).decode("utf-8")` succeeds iff `base < 128` -/
def safeDecode (ignoreUnicode : Bool) (base : Nat) (s : LexSt) : Except PyErr (List Char) :=
  if base < 128 then .ok [Char.ofNat base]
  else if ignoreUnicode then .ok []
  else lexError "This library can't handle invalid unicode characters" s

/-- `_safe_code_point`: `chr(base)` raises ValueError beyond U+10FFFF; surrogates are outside the model -/
def safeCodePoint (ignoreUnicode : Bool) (base : Nat) (s : LexSt) : Except PyErr (List Char) :=
  if base > 0x10FFFF then (if ignoreUnicode then .ok [] else lexError "Invalid unicode codepoint" s)
  else if 0xD800 ≤ base && base ≤ 0xDFFF then .error (.py "OutOfModel" "lone surrogate")
  else .ok [Char.ofNat base]

def hexVal (c : Char) : Nat :=
  if '0' ≤ c && c ≤ '9' then c.toNat - 48
  else if 'a' ≤ c && c ≤ 'f' then c.toNat - 87
  else c.toNat - 55

def intOfHex (ds : List Char) : Nat := ds.foldl (fun a c => a * 16 + hexVal c) 0
def intOfDec (ds : List Char) : Nat := ds.foldl (fun a c => a * 10 + (c.toNat - 48)) 0

/-- one escape sequence of `get_string`; the backslash is consumed, `s.cur` is the character after it -/
def escapeSeq (ignoreUnicode : Bool) (s : LexSt) : Except PyErr (List Char × LexSt) :=
  let line := s.line
  let col := s.col
  match s.cur with
  | none => .error (.py "Unreachable" "lexer.get_string.escape-at-end")
  | some c =>
    if c == 'z' then
      let s1 := advance s
      .ok ([], skipWhitespace (s1.rest.length + 1) s1)
    else if c == 'x' then
      let s1 := advance s
      match s1.cur with
      | none => lexErrorAt "Invalid hex digit" line col
      | some d1 =>
        if !Gen.hexNumber.contains d1 then lexErrorAt "Invalid hex digit" line col
        else
          let s2 := advance s1
          match s2.cur with
          | none => lexErrorAt "Invalid hex digit" line col
          | some d2 =>
            if !Gen.hexNumber.contains d2 then lexErrorAt "Invalid hex digit" line col
            else
              let s3 := advance s2
              match safeDecode ignoreUnicode (intOfHex [d1, d2]) s3 with
              | .error e => .error e
              | .ok r => .ok (r, s3)
    else if c == 'u' then
      let s1 := advance s
      if s1.cur != some '{' then lexError "Invalid character after \\u, expected {" s1
      else
        let s2 := advance s1
        let (cp, s3) := takeWhileIn Gen.hexNumber false (s2.rest.length + 1) s2 []
        if cp.isEmpty then lexError "Invalid unicode codepoint, expected hexadecimal number" s3
        else if s3.cur != some '}' then lexError "Did not close unicode escape" s3
        else if intOfHex cp ≥ 2 ^ 31 then lexError "Unicode codepoints can be at most 2^31 - 1" s3
        else
          let s4 := advance s3
          match safeCodePoint ignoreUnicode (intOfHex cp) s4 with
          | .error e => .error e
          | .ok r => .ok (r, s4)
    else if Gen.number.contains c then
      let s1 := advance s
      let (d2, s2) : List Char × LexSt :=
        match s1.cur with
        | some d => if Gen.number.contains d then ([d], advance s1) else ([], s1)
        | none => ([], s1)
      let (d3, s3) : List Char × LexSt :=
        match s2.cur with
        | some d => if Gen.number.contains d then ([d], advance s2) else ([], s2)
        | none => ([], s2)
      let v := intOfDec (c :: d2 ++ d3)
      if v > 255 then lexErrorAt "Invalid char with number" line col
      else
        match safeDecode ignoreUnicode v s3 with
        | .error e => .error e
        | .ok r => .ok (r, s3)
    else
      match Gen.escapeCodes.lookup c with
      | none => lexErrorAt "Invalid escape sequence" line col
      | some v => .ok ([v], advance s)

/-- the main loop of `get_string`; `escape` as in the Python code -/
def stringLoop (ignoreUnicode : Bool) (closing : Char) :
    Nat → Bool → LexSt → List Char → Except PyErr (List Char × LexSt)
  | 0, _, _, _ => .error .fuel
  | f + 1, escape, s, acc =>
    match s.cur with
    | none => lexError "Did not close string" s
    | some c =>
      if !escape && c == closing then .ok (acc.reverse, advance s)
      else if escape then
        match escapeSeq ignoreUnicode s with
        | .error e => .error e
        | .ok (r, s1) => stringLoop ignoreUnicode closing f false s1 (r.reverse ++ acc)
      else if c == '\\' then stringLoop ignoreUnicode closing f true (advance s) acc
      else if c == '\n' then lexError "Invalid end of string" s
      else stringLoop ignoreUnicode closing f false (advance s) (c :: acc)

/-- `get_string` -/
def getString (ignoreUnicode : Bool) (s : LexSt) : Except PyErr (List Char × LexSt) :=
  match s.cur with
  | some q =>
    if q == '\'' || q == '"' then
      let s1 := advance s
      stringLoop ignoreUnicode q (2 * s1.rest.length + 2) false s1 []
    else .error (.py "AssertionError" "lexer.get_string")
  | none => .error (.py "AssertionError" "lexer.get_string")

structure LexCfg where
  typed : Bool := false
  ignoreUnicode : Bool := false

/-- `get_token_args` -/
def tokenArgs (s : LexSt) : (Nat × Int × List (List Char)) × LexSt :=
  ((s.line + 1, s.col + 1, s.comments), { s with comments := [] })

def mkTok (ty : TT) (v : TokVal) (a : Nat × Int × List (List Char)) : Token :=
  { type := ty, value := v, line := a.1, column := a.2.1, comment := a.2.2 }

def keywordOf (cfg : LexCfg) (name : List Char) : Option TT :=
  match (Gen.keywords.lookup (String.ofList name)) with
  | some n =>
    match TT.ofName n with
    | some t => if (t == .AS || t == .IS) && !cfg.typed then none else some t
    | none => none
  | none => none

def symbolOf (s : List Char) : Option TT :=
  match Gen.symbols.lookup (String.ofList s) with
  | some n => TT.ofName n
  | none => none

/-- skip the prelude (`#!...` on the first line) -/
def skipShebang : Nat → LexSt → LexSt
  | 0, s => s
  | f + 1, s =>
    match s.cur with
    | some c => if c != '\n' then skipShebang f (advance s) else s
    | none => s

/-- the `while self.current_char:` loop of `get_next_token` -/
def nextTokenLoop (cfg : LexCfg) : Nat → LexSt → Except PyErr (Token × LexSt)
  | 0, _ => .error .fuel
  | f + 1, s =>
    match s.cur with
    | none =>
      let (a, s1) := tokenArgs s
      .ok (mkTok .EOF (.str "eof".toList) a, s1)
    | some c =>
      if Gen.whitespace.contains c then nextTokenLoop cfg f (skipWhitespace (s.rest.length + 1) s)
      else if c == '-' && s.peek == some '-' then
        match skipComment s with
        | .error e => .error e
        | .ok s1 => nextTokenLoop cfg f s1
      else
        let (a, s0) := tokenArgs s
        if Gen.letter.contains c then
          match getName s0 with
          | .error e => .error e
          | .ok (name, s1) =>
            match keywordOf cfg name with
            | some t => .ok (mkTok t (.str name) a, s1)
            | none => .ok (mkTok .NAME (.str name) a, s1)
        else if Gen.number.contains c || (c == '.' && inStr s0.peek Gen.number) then
          let (n, s1) := getNumber s0
          let last : Char := s1.prev.getD ' '
          if !(n.ip.isSome || n.fp.isSome)
              || (if n.isHex then "pP+-".toList else "eE+-".toList).contains last
              || inStr s1.cur Gen.alphanumeric
              || s1.cur == some '.' then
            lexErrorAt "Malformed number" (a.1 - 1) (a.2.1 - 1)
          else .ok (mkTok .NUMBER (.num n) a, s1)
        else if c == '\'' || c == '"' then
          match getString cfg.ignoreUnicode s0 with
          | .error e => .error e
          | .ok (v, s1) => .ok (mkTok .STRING (.str v) a, s1)
        else if c == '[' && (s0.peek == some '[' || s0.peek == some '=') then
          match getLongBrackets s0 with
          | .error e => .error e
          | .ok (v, s1) => .ok (mkTok .STRING (.str v) a, s1)
        else if c == '.' && s0.peek == some '.' then
          let s2 := advance (advance s0)
          if s2.cur == some '.' then .ok (mkTok .ELLIPSIS (.str "...".toList) a, advance s2)
          else .ok (mkTok .CONCAT (.str "..".toList) a, s2)
        else
          let two : Option (TT × List Char) :=
            match s0.peek with
            | some p => (symbolOf [c, p]).map fun t => (t, [c, p])
            | none => none
          match two with
          | some (t, v) => .ok (mkTok t (.str v) a, advance (advance s0))
          | none =>
            match symbolOf [c] with
            | some t => .ok (mkTok t (.str [c]) a, advance s0)
            | none => lexError "unrecognised character" s0

/-- `get_next_token` -/
def getNextToken (cfg : LexCfg) (s : LexSt) : Except PyErr (Token × LexSt) :=
  let s1 := if s.line == 0 && s.col == 0 && s.cur == some '#' then skipShebang (s.rest.length + 1) s else s
  nextTokenLoop cfg (s1.rest.length + 2) s1

/-- all tokens up to and including EOF (what repeated `get_next_token` calls deliver) -/
def lexAll (cfg : LexCfg) : Nat → LexSt → Except PyErr (List Token)
  | 0, _ => .error .fuel
  | f + 1, s =>
    match getNextToken cfg s with
    | .error e => .error e
    | .ok (t, s1) =>
      if t.type == .EOF then .ok [t]
      else (lexAll cfg f s1).map (t :: ·)

def lexText (cfg : LexCfg) (text : List Char) : Except PyErr (List Token) :=
  lexAll cfg (text.length + 2) (initLex text)

end Tumfl.Model
