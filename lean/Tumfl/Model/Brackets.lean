import Tumfl.Spec.Ops
import Tumfl.Gen.Brackets
/-!
# Model of the formatter's bracket decisions (visit_BinOp / visit_UnOp, _need_brackets)

The decision itself is *data*: `Gen.binBracketBits` / `Gen.unBracketBits` are re-extracted from the
real formatter on every run (T1).  This file only gives the index arithmetic.
-/
namespace Tumfl.Model
open Tumfl.Spec

def UOpIdx : UOp → Nat
  | .neg => 0 | .len => 1 | .bnot => 2 | .not => 3

/-- kind of an operand as far as the bracket decision can see it -/
inductive K
  | atom
  | un (u : UOp)
  | bin (o : BOp)
  deriving DecidableEq, Repr

def K.idx : K → Nat
  | .atom => 0
  | .un u => 1 + UOpIdx u
  | .bin o => 5 + o.idx

/-- the three style switches that can influence brackets -/
structure BrOpts where
  addAll : Bool
  addClose : Bool
  removeUnnecessary : Bool
  deriving DecidableEq, Repr

def BrOpts.idx (s : BrOpts) : Nat := s.addAll.toNat * 4 + s.addClose.toNat * 2 + s.removeUnnecessary.toNat

def BrOpts.all : List BrOpts :=
  [⟨false, false, false⟩, ⟨false, false, true⟩, ⟨false, true, false⟩, ⟨false, true, true⟩,
   ⟨true, false, false⟩, ⟨true, false, true⟩, ⟨true, true, false⟩, ⟨true, true, true⟩]

/-- does `visit_BinOp` put the operand of kind `k` on side `left` of operator `o` in brackets? -/
def needBin (s : BrOpts) (o : BOp) (left : Bool) (k : K) : Bool :=
  Gen.binBracketBits.testBit (((s.idx * 21 + o.idx) * 2 + left.toNat) * 26 + k.idx)

/-- does `visit_UnOp` put the operand of kind `k` of operator `u` in brackets? -/
def needUn (s : BrOpts) (u : UOp) (k : K) : Bool :=
  Gen.unBracketBits.testBit ((s.idx * 4 + UOpIdx u) * 26 + k.idx)

/-- does `visit_UnOp` put a blank between operator `u` and an unbracketed operand of kind `k`? -/
def unSpace (s : BrOpts) (u : UOp) (k : K) : Bool :=
  Gen.unSpaceBits.testBit ((s.idx * 4 + UOpIdx u) * 26 + k.idx)

end Tumfl.Model
