import Tumfl.Model.Parser
import Tumfl.Spec.Show
/-!
# Canonical text of model ASTs (Driver side; the harness prints the real AST in the same format)
-/
namespace Tumfl.Model
open Tumfl.Spec

def hexOfChars (cs : List Char) : String :=
  let bs := (String.ofList cs).toUTF8
  bs.foldl (fun acc b => acc ++ (if b < 16 then "0" else "") ++ natHex b.toNat) ""

def posStr (t : Token) : String := s!"{t.line} {t.column}"
def cmStr (t : Token) : String := "[" ++ ",".intercalate (t.comment.map fun c => "c" ++ hexOfChars c) ++ "]"
def optHexS (o : Option (List Char)) : String := match o with | some cs => "s" ++ hexOfChars cs | none => "-"
def numStr (n : NumTuple) : String := s!"N{n.isHex}:{optHexS n.ip}:{optHexS n.fp}:{optHexS n.ex}:{optHexS n.fo}"

mutual
partial def dumpExpr : Expr → String
  | .nil t => par ["Nil", posStr t]
  | .bool t v => par ["Boolean", posStr t, toString v]
  | .vararg t => par ["Vararg", posStr t]
  | .number t n => par ["Number", posStr t, numStr n]
  | .string t v => par ["String", posStr t, "s" ++ hexOfChars v]
  | .func t ps b => par ["ExpFunctionDefinition", posStr t, par (ps.map dumpExpr), dumpBlock b]
  | .table t fs => par ("Table" :: posStr t :: fs.map dumpField)
  | .binop t o l r => par ["BinOp", posStr t, o.sym, dumpExpr l, dumpExpr r]
  | .unop t o e => par ["UnOp", posStr t, o.sym, dumpExpr e]
  | .name t n => par ["Name", posStr t, "s" ++ hexOfChars n]
  | .index t l k => par ["Index", posStr t, dumpExpr l, dumpExpr k]
  | .namedIndex t l n => par ["NamedIndex", posStr t, dumpExpr l, dumpExpr n]
  | .call t f args => par ["ExpFunctionCall", posStr t, dumpExpr f, par (args.map dumpExpr)]
  | .method t f m args => par ["ExpMethodInvocation", posStr t, dumpExpr f, dumpExpr m, par (args.map dumpExpr)]
partial def dumpField : Field → String
  | .explicit t k v => par ["ExplicitTableField", posStr t, dumpExpr k, dumpExpr v]
  | .named t n v => par ["NamedTableField", posStr t, dumpExpr n, dumpExpr v]
  | .numbered t v => par ["NumberedTableField", posStr t, dumpExpr v]
partial def dumpOptE : Option Expr → String
  | some e => dumpExpr e
  | none => "-"
partial def dumpStmt : Stmt → String
  | .assign t ts es => par ["Assign", posStr t, cmStr t, par (ts.map dumpExpr), par (es.map dumpExpr)]
  | .block b => dumpBlock b
  | .brk t => par ["Break", posStr t, cmStr t]
  | .call t f args => par ["FunctionCall", posStr t, cmStr t, dumpExpr f, par (args.map dumpExpr)]
  | .funcDef t ns m ps b => par ["FunctionDefinition", posStr t, cmStr t, par (ns.map dumpExpr), dumpOptE m, par (ps.map dumpExpr), dumpBlock b]
  | .goto t l => par ["Goto", posStr t, cmStr t, dumpExpr l]
  | .label t n => par ["Label", posStr t, cmStr t, dumpExpr n]
  | .iff t c tr fl => par ["If", posStr t, cmStr t, dumpExpr c, dumpBlock tr, dumpFalse fl]
  | .iterFor t ns es b => par ["IterativeFor", posStr t, cmStr t, par (ns.map dumpExpr), par (es.map dumpExpr), dumpBlock b]
  | .localAssign t ns es =>
    par ["LocalAssign", posStr t, cmStr t, par (ns.map fun | .mk n a => par [dumpExpr n, dumpOptE a]),
         (match es with | some es => par (es.map dumpExpr) | none => "-")]
  | .localFunc t n ps b => par ["LocalFunctionDefinition", posStr t, cmStr t, dumpExpr n, par (ps.map dumpExpr), dumpBlock b]
  | .method t f m args => par ["MethodInvocation", posStr t, cmStr t, dumpExpr f, dumpExpr m, par (args.map dumpExpr)]
  | .numFor t v a b s body => par ["NumericFor", posStr t, cmStr t, dumpExpr v, dumpExpr a, dumpExpr b, dumpOptE s, dumpBlock body]
  | .repeat t c b => par ["Repeat", posStr t, cmStr t, dumpExpr c, dumpBlock b]
  | .semi t => par ["Semicolon", posStr t, cmStr t]
  | .whl t c b => par ["While", posStr t, cmStr t, dumpExpr c, dumpBlock b]
partial def dumpFalse : IfFalse → String
  | .none => "-"
  | .block b => dumpBlock b
  | .elif t c tr fl => par ["If", posStr t, cmStr t, dumpExpr c, dumpBlock tr, dumpFalse fl]
partial def dumpBlock : Block → String
  | .mk t ss rs isChunk =>
    par [if isChunk then "Chunk" else "Block", posStr t, cmStr t, par (ss.map dumpStmt),
         (match rs with | some es => par (es.map dumpExpr) | none => "-")]
end

def dumpHints (hs : List Hint) : String :=
  "[" ++ ",".intercalate (hs.map fun h => s!"{h.«where»}/{h.what}@{h.token.line}:{h.token.column}") ++ "]"

end Tumfl.Model
