/-!
# Generic model of `tumfl/AST/ASTNode.py`: attribute-scan equality, parent linking, walker coverage

A node is a class name, its atomic attributes (strings, booleans, enum members, `None` markers) and its child slots in a
fixed order, each holding a list of children (a single child is a singleton, an absent optional child the empty list; whether
an optional list is `None` or `[]` is an atomic marker).  Which attributes `__eq__` compares, which slots `parent()` reaches
and which slots the generic walker visits is *data* (`Gen/Schema.lean`, extracted by introspection on every run).
-/
namespace Tumfl.Model

inductive GT
  | mk (cls : String) (atoms : List (String × String)) (kids : List (String × List GT))
  deriving Inhabited

def GT.cls : GT → String | .mk c _ _ => c
def GT.atoms : GT → List (String × String) | .mk _ a _ => a
def GT.kids : GT → List (String × List GT) | .mk _ _ k => k

mutual
/-- structural equality (the reference for `==`) -/
def GT.beq : GT → GT → Bool
  | .mk c1 a1 k1, .mk c2 a2 k2 => c1 == c2 && a1 == a2 && beqSlots k1 k2
def beqSlots : List (String × List GT) → List (String × List GT) → Bool
  | [], [] => true
  | (n1, ts1) :: r1, (n2, ts2) :: r2 => n1 == n2 && beqList ts1 ts2 && beqSlots r1 r2
  | _, _ => false
def beqList : List GT → List GT → Bool
  | [], [] => true
  | t1 :: r1, t2 :: r2 => GT.beq t1 t2 && beqList r1 r2
  | _, _ => false
end

mutual
/-- `ASTNode.__eq__`: same class, and every attribute in `cmp cls` equal (children compared recursively, lists elementwise) -/
def eqG (cmp : String → List String) : GT → GT → Bool
  | .mk c1 a1 k1, .mk c2 a2 k2 =>
    c1 == c2 && (a1.map (·.1) == a2.map (·.1)) &&
    ((a1.filter fun p => (cmp c1).contains p.1) == (a2.filter fun p => (cmp c1).contains p.1)) &&
    eqSlots cmp (cmp c1) k1 k2
def eqSlots (cmp : String → List String) (attrs : List String) : List (String × List GT) → List (String × List GT) → Bool
  | [], [] => true
  | (n1, ts1) :: r1, (n2, ts2) :: r2 =>
    n1 == n2 && (if attrs.contains n1 then eqListG cmp ts1 ts2 else true) && eqSlots cmp attrs r1 r2
  | _, _ => false
def eqListG (cmp : String → List String) : List GT → List GT → Bool
  | [], [] => true
  | t1 :: r1, t2 :: r2 => eqG cmp t1 t2 && eqListG cmp r1 r2
  | _, _ => false
end

/-- a node is addressed by the path of (slot index, child index) pairs from the root -/
abbrev NodePath := List (Nat × Nat)

mutual
/-- every (child, parent) edge of the tree -/
def allEdges (here : NodePath) : GT → List (NodePath × NodePath)
  | .mk _ _ kids => edgesSlots here 0 kids
def edgesSlots (here : NodePath) (i : Nat) : List (String × List GT) → List (NodePath × NodePath)
  | [] => []
  | (_, ts) :: rest => edgesList here i 0 ts ++ edgesSlots here (i + 1) rest
def edgesList (here : NodePath) (i j : Nat) : List GT → List (NodePath × NodePath)
  | [] => []
  | t :: rest => (here ++ [(i, j)], here) :: allEdges (here ++ [(i, j)]) t ++ edgesList here i (j + 1) rest
end

mutual
/-- `ASTNode.parent`: the links it sets - only through the slots `scan cls` reaches, recursively -/
def links (scan : String → List String) (here : NodePath) : GT → List (NodePath × NodePath)
  | .mk c _ kids => linksSlots scan (scan c) here 0 kids
def linksSlots (scan : String → List String) (attrs : List String) (here : NodePath) (i : Nat) :
    List (String × List GT) → List (NodePath × NodePath)
  | [] => []
  | (n, ts) :: rest =>
    (if attrs.contains n then linksList scan here i 0 ts else []) ++ linksSlots scan attrs here (i + 1) rest
def linksList (scan : String → List String) (here : NodePath) (i j : Nat) : List GT → List (NodePath × NodePath)
  | [] => []
  | t :: rest => (here ++ [(i, j)], here) :: links scan (here ++ [(i, j)]) t ++ linksList scan here i (j + 1) rest
end

mutual
/-- all slot names occurring anywhere in the tree are in `ok cls` of their node's class -/
def slotsIn (ok : String → List String) : GT → Bool
  | .mk c _ kids => slotsInSlots ok (ok c) kids
def slotsInSlots (ok : String → List String) (attrs : List String) : List (String × List GT) → Bool
  | [] => true
  | (n, ts) :: rest => attrs.contains n && slotsInList ok ts && slotsInSlots ok attrs rest
def slotsInList (ok : String → List String) : List GT → Bool
  | [] => true
  | t :: rest => slotsIn ok t && slotsInList ok rest
end

end Tumfl.Model
