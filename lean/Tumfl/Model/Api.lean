/-!
# Model of API instances and shared state (C14)

Every call of the API (a lexer/parser/formatter/resolver instance doing one step) is a function of its operation, the
private state of its instance, and the *shared store* (module globals, class attributes, default arguments).  Whether the
code writes to the shared store is decided by the static scan in `Gen/SharedState.lean`; under "no writes", the theorem
`Theory/Api.lean` shows that any interleaving of any histories gives every instance the results of its isolated run.
-/
namespace Tumfl.Model

structure ApiSys (Sh Pr Op Out : Type) where
  step : Sh → Pr → Op → Sh × Pr × Out
  init : Pr

variable {Sh Pr Op Out : Type}

/-- run an interleaved history of (instance id, operation); returns per-step outputs tagged with the instance -/
def ApiSys.run (S : ApiSys Sh Pr Op Out) : Sh → (Nat → Pr) → List (Nat × Op) → List (Nat × Out)
  | _, _, [] => []
  | sh, pr, (i, op) :: rest =>
    let (sh', p', out) := S.step sh (pr i) op
    (i, out) :: S.run sh' (fun j => if j = i then p' else pr j) rest

/-- run one instance alone on its own operations -/
def ApiSys.runAlone (S : ApiSys Sh Pr Op Out) : Sh → Pr → List Op → List Out
  | _, _, [] => []
  | sh, p, op :: rest =>
    let (sh', p', out) := S.step sh p op
    out :: S.runAlone sh' p' rest

end Tumfl.Model
