import Tumfl.Model.Basic
import Tumfl.Spec.Ops
/-!
# Model of tumfl's AST classes (`tumfl/AST/**`)

One constructor per node class, fields in constructor-argument order.  Every node keeps its token.
A statement's `comment` list *is* its token's comment list (`Statement.__init__` aliases it), so the
model reads comments off the node's token; where the parser extends such a list in place
(`body.comment.extend(...)`, `function_token.comment.extend(...)`) the model stores the extended token.
-/
namespace Tumfl.Model
open Tumfl.Spec

mutual
inductive Expr
  | nil (t : Token)
  | bool (t : Token) (v : Bool)
  | vararg (t : Token)
  | number (t : Token) (n : NumTuple)
  | string (t : Token) (v : List Char)
  | func (t : Token) (params : List Expr) (body : Block)
  | table (t : Token) (fields : List Field)
  | binop (t : Token) (op : BOp) (l r : Expr)
  | unop (t : Token) (op : UOp) (e : Expr)
  | name (t : Token) (n : List Char)
  | index (t : Token) (lhs key : Expr)
  | namedIndex (t : Token) (lhs nm : Expr)
  | call (t : Token) (f : Expr) (args : List Expr)
  | method (t : Token) (f m : Expr) (args : List Expr)
inductive Field
  | explicit (t : Token) (key value : Expr)
  | named (t : Token) (nm value : Expr)
  | numbered (t : Token) (value : Expr)
inductive Stmt
  | assign (t : Token) (targets exprs : List Expr)
  | block (b : Block)
  | brk (t : Token)
  | call (t : Token) (f : Expr) (args : List Expr)
  | funcDef (t : Token) (names : List Expr) (method : Option Expr) (params : List Expr) (body : Block)
  | goto (t : Token) (label : Expr)
  | label (t : Token) (nm : Expr)
  | iff (t : Token) (test : Expr) (tr : Block) (fl : IfFalse)
  | iterFor (t : Token) (names exprs : List Expr) (body : Block)
  | localAssign (t : Token) (names : List AttName) (exprs : Option (List Expr))
  | localFunc (t : Token) (nm : Expr) (params : List Expr) (body : Block)
  | method (t : Token) (f m : Expr) (args : List Expr)
  | numFor (t : Token) (var start stop : Expr) (step : Option Expr) (body : Block)
  | repeat (t : Token) (cond : Expr) (body : Block)
  | semi (t : Token)
  | whl (t : Token) (cond : Expr) (body : Block)
/-- the `false` slot of an `If`: nothing, an else block, or a nested `If` (elseif) -/
inductive IfFalse
  | none
  | block (b : Block)
  | elif (t : Token) (test : Expr) (tr : Block) (fl : IfFalse)
inductive AttName
  | mk (nm : Expr) (att : Option Expr)
/-- `Block` and `Chunk` (`isChunk`) -/
inductive Block
  | mk (t : Token) (stmts : List Stmt) (rets : Option (List Expr)) (isChunk : Bool)
end

instance : Inhabited Expr := ⟨.nil default⟩
instance : Inhabited Block := ⟨.mk default [] none false⟩
instance : Inhabited Stmt := ⟨.semi default⟩

def Block.tok : Block → Token | .mk t _ _ _ => t
def Block.stmts : Block → List Stmt | .mk _ s _ _ => s
def Block.rets : Block → Option (List Expr) | .mk _ _ r _ => r

def Token.extendComment (t : Token) (c : List (List Char)) : Token := { t with comment := t.comment ++ c }

/-- `body.comment.extend(x.comment)` on a block whose comment list is its token's -/
def Block.extendComment : Block → List (List Char) → Block
  | .mk t s r c, cm => .mk (t.extendComment cm) s r c

def Expr.tok : Expr → Token
  | .nil t | .bool t _ | .vararg t | .number t _ | .string t _ | .func t _ _ | .table t _
  | .binop t _ _ _ | .unop t _ _ | .name t _ | .index t _ _ | .namedIndex t _ _ | .call t _ _ | .method t _ _ _ => t

end Tumfl.Model
