import Tumfl.Model.Emit
/-!
# `Formatter.visit` after fix 32 (the `;` guard looks at the first token that is neither a separator nor a comment)

This is the family of `Model/Emit.lean` with ONE change, in `visitStmtsI`: whether a statement "begins with `(`" is decided on the first
piece that is not a separator and not a comment (`leadTok`), because the pieces of an inlined chunk begin with the comments of its first
statement.  The theorems about `emit` (for printable trees, which have no nested chunk) carry over through `emitI_eq_emit`
(`Theory/EmitI.lean`): on such trees the two families coincide.  This family is the one tied to formatter.py by T2.
GENERATED from Emit.lean by renaming (see git history); edit both together.
-/
namespace Tumfl.Model

/-- the first piece that is neither a separator nor a comment -/
def leadTok : Pieces → Option (List Char)
  | [] => none
  | .sep _ :: r => leadTok r
  | .str s :: r => if startsWith s ['-', '-'] then leadTok r else some s

mutual
/-- `Formatter.visit` on expressions -/
def visitExprI (sty : Style) : Expr → Pieces
  | .nil _ => [P "nil"]
  | .bool _ v => [P (if v then "true" else "false")]
  | .vararg _ => [P "..."]
  | .number _ n => [.str (numberStr n)]
  | .string _ v => visitString sty v
  | .func _ ps body =>
    [P "function", S .space, P "("] ++ visitArgsI sty ps ++ [P ")"] ++ (visitBlockFullI sty body).drop 1
  | .table _ fs => P "{" :: visitFieldsI sty fs ++ [P "}"]
  | .binop _ o l r =>
    let lp := visitExprI sty l
    let rp := visitExprI sty r
    (if needBin sty.brOpts o true l.kind then wrapParens lp else lp) ++
    [S .space, .str o.sym.toList, S .space] ++
    (if needBin sty.brOpts o false r.kind then wrapParens rp else rp)
  | .unop _ u e =>
    let ep := visitExprI sty e
    .str u.sym.toList ::
      (if needUn sty.brOpts u e.kind then wrapParens ep
       else if unSpace sty.brOpts u e.kind then S .space :: ep
       else ep)
  | .name _ n => [.str n]
  | .index _ lhs key => fmtVar lhs (visitExprI sty lhs) ++ [P "["] ++ fmtKey (visitExprI sty key) ++ [P "]"]
  | .namedIndex _ lhs nm => fmtVar lhs (visitExprI sty lhs) ++ [S .dot] ++ visitExprI sty nm
  | .call _ f args => fmtVar f (visitExprI sty f) ++ fmtFunctionArgs sty args (visitArgsI sty args)
  | .method _ f m args => fmtVar f (visitExprI sty f) ++ [P ":"] ++ visitExprI sty m ++ fmtFunctionArgs sty args (visitArgsI sty args)

/-- `_format_args` on expressions: `Separators.Argument.join(self.visit(arg) for arg in arguments)` -/
def visitArgsI (sty : Style) : List Expr → Pieces
  | [] => []
  | [e] => visitExprI sty e
  | e :: e2 :: rest => visitExprI sty e ++ S .argument :: visitArgsI sty (e2 :: rest)

/-- `_format_args` on table fields -/
def visitFieldsI (sty : Style) : List Field → Pieces
  | [] => []
  | [f] => visitFieldI sty f
  | f :: f2 :: rest => visitFieldI sty f ++ S .argument :: visitFieldsI sty (f2 :: rest)

def visitFieldI (sty : Style) : Field → Pieces
  | .explicit _ k v => [P "["] ++ fmtKey (visitExprI sty k) ++ [P "]", S .space, P "=", S .space] ++ visitExprI sty v
  | .named _ n v => visitExprI sty n ++ [S .space, P "=", S .space] ++ visitExprI sty v
  | .numbered _ v => visitExprI sty v

/-- `visit_Block` (also used for a `Chunk` by the function printers) -/
def visitBlockFullI (sty : Style) : Block → Pieces
  | .mk _ stmts rets _ =>
    [P "do", S .block, S .indent] ++ visitStmtsI sty true stmts ++
    (match rets with
     | some es => [P "return"] ++ (if es.isEmpty then [] else [S .space]) ++ visitArgsI sty es ++ [S .statement]
     | none => []) ++
    [S .deindent, P "end"]

/-- the statement loop of `visit_Block`; `first` tells whether the statement is `node.statements[0]` -/
def visitStmtsI (sty : Style) : Bool → List Stmt → Pieces
  | _, [] => []
  | first, s :: rest =>
    let cps : Pieces := if sty.includeComments then (stmtComments s).flatMap (formatComment sty) else []
    let toks := visitStmtI sty s
    let guard : Pieces := if leadTok toks == some ['('] then (if first then [] else [P ";"]) else []
    cps ++ guard ++ toks ++ [S .statement] ++ visitStmtsI sty false rest

/-- `Formatter.visit` on statements -/
def visitStmtI (sty : Style) : Stmt → Pieces
  | .assign _ ts es =>
    visitTargetsI sty ts ++ [S .space, P "=", S .space] ++ visitArgsI sty es
  | .block b => blk b (visitBlockFullI sty b)
  | .brk _ => [P "break"]
  | .call _ f args => fmtVar f (visitExprI sty f) ++ fmtFunctionArgs sty args (visitArgsI sty args)
  | .funcDef _ names m ps body =>
    [S .newline, P "function", S .space] ++ visitDottedI sty names ++
    (match m with | some mn => P ":" :: visitExprI sty mn | none => []) ++
    [P "("] ++ visitArgsI sty ps ++ [P ")"] ++ (visitBlockFullI sty body).drop 1 ++ [S .block, S .newline]
  | .goto _ l => [P "goto", S .space] ++ visitExprI sty l
  | .label _ n => P "::" :: visitExprI sty n ++ [P "::"]
  | .iff _ test tr fl =>
    [P "if", S .space] ++ visitExprI sty test ++ [S .space, P "then", S .block] ++
    sliceInner 2 1 (blk tr (visitBlockFullI sty tr)) ++ visitFalseI sty fl ++ [P "end"]
  | .iterFor _ ns es body =>
    [P "for", S .space] ++ visitArgsI sty ns ++ [S .space, P "in", S .space] ++ visitArgsI sty es ++ [S .space] ++
    blk body (visitBlockFullI sty body)
  | .localAssign _ names es =>
    [P "local", S .space] ++ visitAttNames names ++
    (match es with
     | some (e :: rest) => [S .space, P "=", S .space] ++ visitArgsI sty (e :: rest)
     | _ => [])
  | .localFunc _ n ps body =>
    [S .newline, P "local", S .space, P "function", S .space] ++ visitExprI sty n ++ [P "("] ++ visitArgsI sty ps ++ [P ")"] ++
    (visitBlockFullI sty body).drop 1 ++ [S .statement, S .newline]
  | .method _ f m args => fmtVar f (visitExprI sty f) ++ [P ":"] ++ visitExprI sty m ++ fmtFunctionArgs sty args (visitArgsI sty args)
  | .numFor _ v a b step body =>
    [P "for", S .space] ++ visitExprI sty v ++ [S .space, P "=", S .space] ++ visitExprI sty a ++ [S .argument] ++ visitExprI sty b ++
    (match step with | some s => S .argument :: visitExprI sty s | none => []) ++ [S .space] ++ blk body (visitBlockFullI sty body)
  | .repeat _ c body =>
    [P "repeat", S .block] ++ sliceInner 2 1 (blk body (visitBlockFullI sty body)) ++ [P "until", S .space] ++ visitExprI sty c
  | .semi _ => if sty.keepSemicolon then [P ";"] else []
  | .whl _ c body => [P "while", S .space] ++ visitExprI sty c ++ [S .space] ++ blk body (visitBlockFullI sty body)

/-- the `elseif` / `else` chain of `visit_If` -/
def visitFalseI (sty : Style) : IfFalse → Pieces
  | .none => []
  | .block b => [P "else", S .block] ++ sliceInner 2 1 (blk b (visitBlockFullI sty b))
  | .elif _ test tr fl =>
    [P "elseif", S .space] ++ visitExprI sty test ++ [S .space, P "then", S .block] ++
    sliceInner 2 1 (blk tr (visitBlockFullI sty tr)) ++ visitFalseI sty fl

/-- `Separators.Argument.join(self._format_var(var) for var in node.targets)` -/
def visitTargetsI (sty : Style) : List Expr → Pieces
  | [] => []
  | [e] => fmtVar e (visitExprI sty e)
  | e :: e2 :: rest => fmtVar e (visitExprI sty e) ++ S .argument :: visitTargetsI sty (e2 :: rest)

/-- `Separators.Dot.join(self.visit(name) for name in node.names)` -/
def visitDottedI (sty : Style) : List Expr → Pieces
  | [] => []
  | [e] => visitExprI sty e
  | e :: e2 :: rest => visitExprI sty e ++ S .dot :: visitDottedI sty (e2 :: rest)
end

/-- `Formatter(style).visit(ast)` for the root node -/
def emitI (sty : Style) (b : Block) : Pieces := blk b (visitBlockFullI sty b)


end Tumfl.Model
