import Tumfl.Gen.LexTables
/-!
# Basic types of the model: token types, tokens, numeral tuples, errors

`TT` mirrors `tumfl.Token.TokenType` member by member (`Inst/LexTables.lean` checks the list against
the extracted one).
-/
namespace Tumfl.Model

inductive TT
  | AND
  | BREAK
  | DO
  | ELSE
  | ELSEIF
  | END
  | FALSE
  | FOR
  | FUNCTION
  | GOTO
  | IF
  | IN
  | LOCAL
  | NIL
  | NOT
  | OR
  | REPEAT
  | RETURN
  | THEN
  | TRUE
  | UNTIL
  | WHILE
  | AS
  | IS
  | PLUS
  | MINUS
  | MULT
  | DIVIDE
  | MODULO
  | EXPONENT
  | HASH
  | EQUALS
  | NOT_EQUALS
  | LESS_EQUALS
  | GREATER_EQUALS
  | LESS_THAN
  | GREATER_THAN
  | ASSIGN
  | L_PAREN
  | R_PAREN
  | L_CURL
  | R_CURL
  | L_BRACKET
  | R_BRACKET
  | SEMICOLON
  | COLON
  | LABEL_BORDER
  | COMMA
  | DOT
  | CONCAT
  | ELLIPSIS
  | BIT_AND
  | BIT_OR
  | BIT_XOR
  | BIT_SHIFT_LEFT
  | BIT_SHIFT_RIGHT
  | INTEGER_DIVISION
  | NAME
  | NUMBER
  | STRING
  | EOF
  deriving DecidableEq, Repr, Inhabited

def TT.all : List TT := [.AND, .BREAK, .DO, .ELSE, .ELSEIF, .END, .FALSE, .FOR, .FUNCTION, .GOTO, .IF, .IN, .LOCAL, .NIL, .NOT, .OR, .REPEAT, .RETURN, .THEN, .TRUE, .UNTIL, .WHILE, .AS, .IS, .PLUS, .MINUS, .MULT, .DIVIDE, .MODULO, .EXPONENT, .HASH, .EQUALS, .NOT_EQUALS, .LESS_EQUALS, .GREATER_EQUALS, .LESS_THAN, .GREATER_THAN, .ASSIGN, .L_PAREN, .R_PAREN, .L_CURL, .R_CURL, .L_BRACKET, .R_BRACKET, .SEMICOLON, .COLON, .LABEL_BORDER, .COMMA, .DOT, .CONCAT, .ELLIPSIS, .BIT_AND, .BIT_OR, .BIT_XOR, .BIT_SHIFT_LEFT, .BIT_SHIFT_RIGHT, .INTEGER_DIVISION, .NAME, .NUMBER, .STRING, .EOF]

def TT.name : TT → String
  | .AND => "AND"
  | .BREAK => "BREAK"
  | .DO => "DO"
  | .ELSE => "ELSE"
  | .ELSEIF => "ELSEIF"
  | .END => "END"
  | .FALSE => "FALSE"
  | .FOR => "FOR"
  | .FUNCTION => "FUNCTION"
  | .GOTO => "GOTO"
  | .IF => "IF"
  | .IN => "IN"
  | .LOCAL => "LOCAL"
  | .NIL => "NIL"
  | .NOT => "NOT"
  | .OR => "OR"
  | .REPEAT => "REPEAT"
  | .RETURN => "RETURN"
  | .THEN => "THEN"
  | .TRUE => "TRUE"
  | .UNTIL => "UNTIL"
  | .WHILE => "WHILE"
  | .AS => "AS"
  | .IS => "IS"
  | .PLUS => "PLUS"
  | .MINUS => "MINUS"
  | .MULT => "MULT"
  | .DIVIDE => "DIVIDE"
  | .MODULO => "MODULO"
  | .EXPONENT => "EXPONENT"
  | .HASH => "HASH"
  | .EQUALS => "EQUALS"
  | .NOT_EQUALS => "NOT_EQUALS"
  | .LESS_EQUALS => "LESS_EQUALS"
  | .GREATER_EQUALS => "GREATER_EQUALS"
  | .LESS_THAN => "LESS_THAN"
  | .GREATER_THAN => "GREATER_THAN"
  | .ASSIGN => "ASSIGN"
  | .L_PAREN => "L_PAREN"
  | .R_PAREN => "R_PAREN"
  | .L_CURL => "L_CURL"
  | .R_CURL => "R_CURL"
  | .L_BRACKET => "L_BRACKET"
  | .R_BRACKET => "R_BRACKET"
  | .SEMICOLON => "SEMICOLON"
  | .COLON => "COLON"
  | .LABEL_BORDER => "LABEL_BORDER"
  | .COMMA => "COMMA"
  | .DOT => "DOT"
  | .CONCAT => "CONCAT"
  | .ELLIPSIS => "ELLIPSIS"
  | .BIT_AND => "BIT_AND"
  | .BIT_OR => "BIT_OR"
  | .BIT_XOR => "BIT_XOR"
  | .BIT_SHIFT_LEFT => "BIT_SHIFT_LEFT"
  | .BIT_SHIFT_RIGHT => "BIT_SHIFT_RIGHT"
  | .INTEGER_DIVISION => "INTEGER_DIVISION"
  | .NAME => "NAME"
  | .NUMBER => "NUMBER"
  | .STRING => "STRING"
  | .EOF => "EOF"

def TT.value : TT → String
  | .AND => "and"
  | .BREAK => "break"
  | .DO => "do"
  | .ELSE => "else"
  | .ELSEIF => "elseif"
  | .END => "end"
  | .FALSE => "false"
  | .FOR => "for"
  | .FUNCTION => "function"
  | .GOTO => "goto"
  | .IF => "if"
  | .IN => "in"
  | .LOCAL => "local"
  | .NIL => "nil"
  | .NOT => "not"
  | .OR => "or"
  | .REPEAT => "repeat"
  | .RETURN => "return"
  | .THEN => "then"
  | .TRUE => "true"
  | .UNTIL => "until"
  | .WHILE => "while"
  | .AS => "as"
  | .IS => "is"
  | .PLUS => "+"
  | .MINUS => "-"
  | .MULT => "*"
  | .DIVIDE => "/"
  | .MODULO => "%"
  | .EXPONENT => "^"
  | .HASH => "#"
  | .EQUALS => "=="
  | .NOT_EQUALS => "~="
  | .LESS_EQUALS => "<="
  | .GREATER_EQUALS => ">="
  | .LESS_THAN => "<"
  | .GREATER_THAN => ">"
  | .ASSIGN => "="
  | .L_PAREN => "("
  | .R_PAREN => ")"
  | .L_CURL => "{"
  | .R_CURL => "}"
  | .L_BRACKET => "["
  | .R_BRACKET => "]"
  | .SEMICOLON => ";"
  | .COLON => ":"
  | .LABEL_BORDER => "::"
  | .COMMA => ","
  | .DOT => "."
  | .CONCAT => ".."
  | .ELLIPSIS => "..."
  | .BIT_AND => "&"
  | .BIT_OR => "|"
  | .BIT_XOR => "~"
  | .BIT_SHIFT_LEFT => "<<"
  | .BIT_SHIFT_RIGHT => ">>"
  | .INTEGER_DIVISION => "//"
  | .NAME => "name"
  | .NUMBER => "number"
  | .STRING => "string"
  | .EOF => "eof"

def TT.ofName (s : String) : Option TT := TT.all.find? fun t => t.name == s

/-- `NumberTuple`: (is_hex, integer_part, fractional_part, exponent, float_offset) -/
structure NumTuple where
  isHex : Bool
  ip : Option (List Char)
  fp : Option (List Char)
  ex : Option (List Char)
  fo : Option (List Char)
  deriving DecidableEq, Repr, Inhabited

inductive TokVal
  | str (s : List Char)
  | num (n : NumTuple)
  deriving DecidableEq, Repr, Inhabited

structure Token where
  type : TT
  value : TokVal
  line : Nat
  column : Int
  comment : List (List Char)
  deriving Repr, Inhabited

/-- `parser.Hint` -/
structure Hint where
  token : Token
  «where» : String
  what : String
  deriving Repr, Inhabited

/-- Python exceptions as values.  `py` stands for a built-in exception raised by accident
(TypeError, AssertionError, IndexError, ...) at a named site; `fuel` cannot occur when the stated
fuel bounds hold. -/
inductive PyErr
  | lexer (msg : String) (line : Nat) (col : Int)
  | parser (msg : String) (tok : Token) (hints : List Hint)
  | dependency (msg : String) (tok : Token)
  | py (kind : String) (site : String)
  | fuel
  deriving Repr, Inhabited

end Tumfl.Model
