import Tumfl.Model.Layout
import Tumfl.Model.EmitI
/-! `format` on top of the emitter after fix 32 (`emitI`); everything after the emitter is the text of `Layout.format`. -/
namespace Tumfl.Model

/-- `format(ast, style)` with the emitter of `EmitI.lean` -/
def formatI (sty : Style) (ast : Block) : R (List Char) := do
  let ts0 := emitI sty ast
  let ts1 ← (if sty.removeUnnecessaryChars then removeSeparators ts0 else .ok ts0)
  let ts2 ← (if sty.lineWidth > 0 then indentBrackets ts1 sty else .ok ts1)
  let ts3 ← (if sty.blockSpacer > 0 then addSpacing ts2 sty else .ok ts2)
  let ts4 := .str ("--".toList ++ sty.commentSep ++ "tumfl".toList) :: S .newline :: ts3
  let ts5 := removeOrphaned ts4
  let ts6 ← resolveTokens sty ts5
  let ts7 ← indentLoop sty.indentation ts6 0 false
  let ending := if sty.removeUnnecessaryChars then [] else sty.statementSeparator
  let formatted := joinTokens ts7
  let lines := (splitOnNewline formatted).map pyRstrip
  .ok (pyStripAll (lines.intersperse ['\n']).flatten ++ ending)


/-- where the two emitters agree, so do the two `format`s -/
theorem formatI_eq_format (sty : Style) (ast : Block) (h : emitI sty ast = emit sty ast) : formatI sty ast = format sty ast := by
  unfold formatI format
  rw [h]

end Tumfl.Model
