import Tumfl.Spec.Climb
/-!
# Model of tumfl's expression ladder (`parser.py`: `_parse_exp` .. `_parse_pow_exp`), generic in the cursor

`__parse_left_associative_binop`, `__parse_right_associative_binop` and the twelve level methods, over
the same abstract token cursor (`ExprSig`) as Lua's `climb`.  Which operators sit on which level and
which helper a level uses is *data* (`LevelDesc`), read from parser.py on every run (Gen/Ladder.lean).
`Theory/Ladder.lean` proves that a ladder satisfying the decidable `LadderOK` parses exactly like `climb`.
-/
namespace Tumfl.Model
open Tumfl.Spec

structure LevelDesc where
  ops : List BOp
  right : Bool
  deriving Repr, DecidableEq

variable {σ ε Err T : Type}

abbrev PR (σ ε Err : Type) := Except Err (ε × σ)

/-- the `while self.current_token.type in types:` loop of `__parse_left_associative_binop` -/
def leftLoop (S : ExprSig σ ε Err T) (ops : List BOp) (base : σ → PR σ ε Err) : Nat → ε → σ → PR σ ε Err
  | 0, _, _ => .error S.fuelErr
  | f + 1, node, s =>
    match S.binOf (S.peek s) with
    | some o =>
      if ops.contains o then
        match S.eat s with
        | .error e => .error e
        | .ok s1 =>
          match base s1 with
          | .error e => .error e
          | .ok (r, s2) => leftLoop S ops base f (S.mkBin (S.peek s) o node r) s2
      else .ok (node, s)
    | none => .ok (node, s)

/-- `__parse_left_associative_binop` -/
def leftAssoc (S : ExprSig σ ε Err T) (ops : List BOp) (base : σ → PR σ ε Err) (f : Nat) (s : σ) : PR σ ε Err :=
  match base s with
  | .error e => .error e
  | .ok (n, s1) => leftLoop S ops base f n s1

/-- the collecting loop of `__parse_right_associative_binop`: operator tokens and operands, in source order -/
def rightCollect (S : ExprSig σ ε Err T) (ops : List BOp) (operand : σ → PR σ ε Err) :
    Nat → σ → Except Err (List (T × BOp × ε) × σ)
  | 0, _ => .error S.fuelErr
  | f + 1, s =>
    match S.binOf (S.peek s) with
    | some o =>
      if ops.contains o then
        match S.eat s with
        | .error e => .error e
        | .ok s1 =>
          match operand s1 with
          | .error e => .error e
          | .ok (r, s2) =>
            match rightCollect S ops operand f s2 with
            | .error e => .error e
            | .ok (rest, s3) => .ok ((S.peek s, o, r) :: rest, s3)
      else .ok ([], s)
    | none => .ok ([], s)

/-- the final fold: `node = nodes[-1]; for i in range(len(nodes) - 2, -1, -1): node = BinOp(tokens[i], nodes[i], node)` -/
def foldRight (S : ExprSig σ ε Err T) (first : ε) : List (T × BOp × ε) → ε
  | [] => first
  | (t, o, e) :: rest => S.mkBin t o first (foldRight S e rest)

/-- `__parse_right_associative_binop` -/
def rightAssoc (S : ExprSig σ ε Err T) (ops : List BOp) (base operand : σ → PR σ ε Err) (f : Nat) (s : σ) : PR σ ε Err :=
  match base s with
  | .error e => .error e
  | .ok (n, s1) =>
    match rightCollect S ops operand f s1 with
    | .error e => .error e
    | .ok (items, s2) => .ok (foldRight S n items, s2)

mutual
/-- `_parse_un_exp` -/
def unLevel (S : ExprSig σ ε Err T) (powOps : List BOp) : Nat → σ → PR σ ε Err
  | 0, _ => .error S.fuelErr
  | f + 1, s =>
    match S.unOf (S.peek s) with
    | some u =>
      match S.eat s with
      | .error e => .error e
      | .ok s1 =>
        match unLevel S powOps f s1 with
        | .error e => .error e
        | .ok (e, s2) => .ok (S.mkUn (S.peek s) u e, s2)
    | none => powLevel S powOps f s
/-- `_parse_pow_exp`: right associative, base `_parse_atom`, operand `_parse_un_exp` -/
def powLevel (S : ExprSig σ ε Err T) (powOps : List BOp) : Nat → σ → PR σ ε Err
  | 0, _ => .error S.fuelErr
  | f + 1, s => rightAssoc S powOps S.simple (unLevel S powOps f) f s
end

/-- the binary levels above the unary level, lowest precedence first -/
def binLevels (S : ExprSig σ ε Err T) (powOps : List BOp) : List LevelDesc → Nat → σ → PR σ ε Err
  | [], f, s => unLevel S powOps f s
  | _ :: _, 0, _ => .error S.fuelErr
  | d :: rest, f + 1, s =>
    if d.right then rightAssoc S d.ops (binLevels S powOps rest f) (binLevels S powOps (d :: rest) f) f s
    else leftAssoc S d.ops (binLevels S powOps rest f) f s

/-- `_parse_exp` -/
def ladderExp (S : ExprSig σ ε Err T) (levels : List LevelDesc) (powOps : List BOp) (f : Nat) (s : σ) : PR σ ε Err :=
  binLevels S powOps levels f s

end Tumfl.Model
