import Tumfl.Spec.Parse
/-!
# Normalisation and canonical S-expression rendering of Spec trees (Driver side)

`norm` erases what the properties allow to differ: empty statements, and parentheses unless they
enclose a call or `...` in the last position of an expression list (where they truncate to one
value).  These are Driver/oracle functions; they are `partial` because the tree type is a nested
inductive - no theorem mentions them.
-/
namespace Tumfl.Spec

def hexDigit (n : Nat) : Char :=
  if n < 10 then Char.ofNat (48 + n) else Char.ofNat (87 + n)

partial def natHex (n : Nat) : String :=
  if n < 16 then String.singleton (hexDigit n) else natHex (n / 16) ++ String.singleton (hexDigit (n % 16))

def showUnit : SUnit → String
  | .ch c => natHex c
  | .byte b => "B" ++ natHex b

def showNumVal : NumVal → String
  | .int n => s!"I{n}"
  | .flt a b => s!"F{a}/{b}"

def isMulti : Exp → Bool
  | .call _ _ | .mcall _ _ _ | .vararg => true
  | _ => false

/-- erase every parenthesis node (used to recognise inputs that depend on truncating parentheses) -/
partial def eraseParens : Exp → Exp
  | .paren e => eraseParens e
  | e => e

mutual
partial def normExp (multi : Bool) : Exp → Exp
  | .paren e =>
    let e' := normExp false e
    if multi && isMulti e' then .paren e' else e'
  | .func ps va b => .func ps va (normBlock b)
  | .table fs => .table (normFields fs)
  | .bin o l r => .bin o (normExp false l) (normExp false r)
  | .un o e => .un o (normExp false e)
  | .index p k => .index (normExp false p) (normExp false k)
  | .dot p n => .dot (normExp false p) n
  | .call f args => .call (normExp false f) (normList args)
  | .mcall f m args => .mcall (normExp false f) m (normList args)
  | e => e
/-- an expression list whose last element is in a multiple-value position -/
partial def normList : List Exp → List Exp
  | [] => []
  | [e] => [normExp true e]
  | e :: es => normExp false e :: normList es
partial def normFields : List Field → List Field
  | [] => []
  | [.pos e] => [.pos (normExp true e)]
  | .pos e :: fs => .pos (normExp false e) :: normFields fs
  | .named n e :: fs => .named n (normExp false e) :: normFields fs
  | .keyed k e :: fs => .keyed (normExp false k) (normExp false e) :: normFields fs
partial def normStat : Stat → Option Stat
  | .empty => none
  | .assign ts es => some (.assign (ts.map (normExp false)) (normList es))
  | .call e => some (.call (normExp false e))
  | .doo b => some (.doo (normBlock b))
  | .whl c b => some (.whl (normExp false c) (normBlock b))
  | .rep b c => some (.rep (normBlock b) (normExp false c))
  | .iff c t elifs els =>
    some (.iff (normExp false c) (normBlock t)
      (elifs.map fun | .mk c b => .mk (normExp false c) (normBlock b))
      (els.map normBlock))
  | .fornum v a b s body =>
    some (.fornum v (normExp false a) (normExp false b) (s.map (normExp false)) (normBlock body))
  | .forin ns es body => some (.forin ns (normList es) (normBlock body))
  | .func ns m ps va body => some (.func ns m ps va (normBlock body))
  | .localfunc n ps va body => some (.localfunc n ps va (normBlock body))
  | .locl ns es => some (.locl ns (normList es))
  | s => some s
partial def normBlock : Block → Block
  | .mk ss ret => .mk (ss.filterMap normStat) (ret.map normList)
end

def sp (xs : List String) : String := " ".intercalate xs
def par (xs : List String) : String := "(" ++ sp xs ++ ")"

mutual
partial def showExp : Exp → String
  | .nil => "nil" | .tru => "true" | .fls => "false" | .vararg => "..."
  | .num n => par ["num", showNumVal (numValue n)]
  | .str v => par ("str" :: v.map showUnit)
  | .func ps va b => par ["func", par ps, if va then "va" else "nova", showBlock b]
  | .table fs => par ("table" :: fs.map showField)
  | .bin o l r => par ["bin", o.sym, showExp l, showExp r]
  | .un o e => par ["un", o.sym, showExp e]
  | .paren e => par ["paren", showExp e]
  | .name s => par ["name", s]
  | .index p k => par ["index", showExp p, showExp k]
  | .dot p n => par ["dot", showExp p, n]
  | .call f args => par ("call" :: showExp f :: args.map showExp)
  | .mcall f m args => par ("mcall" :: showExp f :: m :: args.map showExp)
partial def showField : Field → String
  | .pos e => par ["pos", showExp e]
  | .named n e => par ["named", n, showExp e]
  | .keyed k e => par ["keyed", showExp k, showExp e]
partial def showStat : Stat → String
  | .empty => ";"
  | .assign ts es => par ["assign", par (ts.map showExp), par (es.map showExp)]
  | .call e => par ["callstat", showExp e]
  | .label n => par ["label", n]
  | .brk => "break"
  | .goto n => par ["goto", n]
  | .doo b => par ["do", showBlock b]
  | .whl c b => par ["while", showExp c, showBlock b]
  | .rep b c => par ["repeat", showBlock b, showExp c]
  | .iff c t elifs els =>
    par (["if", showExp c, showBlock t]
      ++ elifs.map (fun | .mk c b => par ["elseif", showExp c, showBlock b])
      ++ (match els with | some b => [par ["else", showBlock b]] | none => []))
  | .fornum v a b s body =>
    par ["fornum", v, showExp a, showExp b, (match s with | some e => showExp e | none => "-"), showBlock body]
  | .forin ns es body => par ["forin", par ns, par (es.map showExp), showBlock body]
  | .func ns m ps va body =>
    par ["function", par ns, m.getD "-", par ps, if va then "va" else "nova", showBlock body]
  | .localfunc n ps va body => par ["localfunction", n, par ps, if va then "va" else "nova", showBlock body]
  | .locl ns es =>
    par ["local", par (ns.map fun (n, a) => par [n, a.getD "-"]), par (es.map showExp)]
partial def showBlock : Block → String
  | .mk ss ret =>
    par ("block" :: ss.map showStat ++ (match ret with | some es => [par ("return" :: es.map showExp)] | none => []))
end

end Tumfl.Spec
