/-!
# Reference lexer for Lua 5.4 (the "Spec" side)

Written from the reference manual §3.1 and the structure of `llex.c`; independent of tumfl.
Text is `List Char`.  Everything here is total (fuel where needed) and executable; the Driver
runs these definitions as the oracle, and the theorems in `Tumfl/Theory` talk about them.
-/

namespace Tumfl.Spec

abbrev Text := List Char

/-! ## character classes (C locale, ASCII only, as `lctype.h`) -/

def isSpace (c : Char) : Bool :=
  c == ' ' || c == '\x0c' || c == '\n' || c == '\r' || c == '\t' || c == '\x0b'

def isDigit (c : Char) : Bool := '0' ≤ c && c ≤ '9'

def isXDigit (c : Char) : Bool :=
  isDigit c || ('a' ≤ c && c ≤ 'f') || ('A' ≤ c && c ≤ 'F')

def isAlpha (c : Char) : Bool :=
  ('a' ≤ c && c ≤ 'z') || ('A' ≤ c && c ≤ 'Z') || c == '_'

def isAlnum (c : Char) : Bool := isAlpha c || isDigit c

def digitVal (c : Char) : Nat := c.toNat - '0'.toNat

def xdigitVal (c : Char) : Nat :=
  if isDigit c then c.toNat - '0'.toNat
  else if 'a' ≤ c && c ≤ 'f' then c.toNat - 'a'.toNat + 10
  else c.toNat - 'A'.toNat + 10

/-! ## values -/

/-- One unit of a string value.  A source character or a `\u{..}` escape stands for its code point
(i.e. for its UTF-8 bytes); a `\ddd` / `\xHH` escape below 128 is the same unit as the ASCII
character; one at or above 128 is a raw byte. -/
inductive SUnit
  | ch (c : Nat)
  | byte (b : Nat)
  deriving DecidableEq, Repr, Inhabited

/-- A numeral as the grammar of `l_str2int` / `l_str2d` sees it. -/
structure Numeral where
  hex : Bool
  ip : List Char                       -- integer digits, possibly empty
  fp : Option (List Char)              -- fraction digits when a dot is present, possibly empty
  ex : Option (Bool × List Char)       -- exponent: (negative?, digits)
  deriving DecidableEq, Repr, Inhabited

/-- Kind and exact value of a numeral: an integer (hexadecimal integers wrap modulo 2^64) or a
float given as an exact reduced fraction. -/
inductive NumVal
  | int (n : Nat)
  | flt (num den : Nat)
  deriving DecidableEq, Repr, Inhabited

def digitsVal (base : Nat) (ds : List Char) : Nat :=
  ds.foldl (fun a c => a * base + xdigitVal c) 0

def mkFlt (m : Nat) (base : Nat) (e : Int) : NumVal :=
  if m == 0 then .flt 0 1 else
  match e with
  | .ofNat k => .flt (m * base ^ k) 1
  | .negSucc k =>
    let d := base ^ (k + 1)
    let g := Nat.gcd m d
    .flt (m / g) (d / g)

def Numeral.valid (n : Numeral) : Bool :=
  (!n.ip.isEmpty || (match n.fp with | some f => !f.isEmpty | none => false)) &&
  (match n.ex with | some (_, ds) => !ds.isEmpty | none => true)

def numValue (n : Numeral) : NumVal :=
  match n.fp, n.ex with
  | none, none =>
    if n.hex then .int (digitsVal 16 n.ip % 2 ^ 64)
    else
      let v := digitsVal 10 n.ip
      if v < 2 ^ 63 then .int v else .flt v 1
  | fp, ex =>
    let f := fp.getD []
    let base := if n.hex then 16 else 10
    let m := digitsVal base (n.ip ++ f)
    let e : Int := match ex with
      | some (neg, ds) => if neg then - (digitsVal 10 ds : Int) else (digitsVal 10 ds : Int)
      | none => 0
    if n.hex then mkFlt m 2 (e - 4 * (f.length : Int))
    else mkFlt m 10 (e - (f.length : Int))

/-! ## tokens -/

inductive Tk
  | kw (s : String)
  | sym (s : String)
  | name (s : String)
  | str (v : List SUnit)
  | num (n : Numeral)
  | eof
  deriving DecidableEq, Repr, Inhabited

structure Tok where
  tk : Tk
  off : Nat                       -- offset of the token's first character
  comments : List (List Char)     -- raw texts of the comments since the previous token
  deriving Repr, Inhabited

inductive LexErr
  | mk (msg : String) (off : Nat)
  deriving Repr, Inhabited

def keywords : List String :=
  ["and", "break", "do", "else", "elseif", "end", "false", "for", "function", "goto", "if", "in",
   "local", "nil", "not", "or", "repeat", "return", "then", "true", "until", "while"]

/-! ## long brackets -/

/-- Count the `=` signs at the head. -/
def countEq : List Char → Nat × List Char
  | '=' :: cs => let (n, r) := countEq cs; (n + 1, r)
  | cs => (0, cs)

/-- `cs` follows a `]`; succeed when it continues with `lvl` `=` signs and a `]`. -/
def closesAt : Nat → List Char → Option (List Char)
  | 0, ']' :: cs => some cs
  | n + 1, '=' :: cs => closesAt n cs
  | _, _ => none

/-- Body of a long bracket of level `lvl` (opener already consumed): up to the first closer. -/
def longBody (lvl : Nat) : List Char → Option (List Char × List Char)
  | [] => none
  | ']' :: cs =>
    match closesAt lvl cs with
    | some rest => some ([], rest)
    | none => (longBody lvl cs).map fun (b, r) => (']' :: b, r)
  | c :: cs => (longBody lvl cs).map fun (b, r) => (c :: b, r)

/-- The newline directly after the opener is not part of the value (LF only; CR is out of scope). -/
def dropFirstNewline : List Char → List Char
  | '\n' :: cs => cs
  | cs => cs

/-- `cs` starts at `[`.  `some (lvl, afterOpener)` iff it is a long-bracket opener `[=*[`. -/
def longOpener : List Char → Option (Nat × List Char)
  | '[' :: cs =>
    match countEq cs with
    | (n, '[' :: r) => some (n, r)
    | _ => none
  | _ => none

/-! ## quoted strings -/

def escChar : Char → Option Nat
  | 'a' => some 7 | 'b' => some 8 | 'f' => some 12 | 'n' => some 10 | 'r' => some 13
  | 't' => some 9 | 'v' => some 11 | '\\' => some 92 | '"' => some 34 | '\'' => some 39
  | '\n' => some 10
  | _ => none

def byteUnit (b : Nat) : SUnit := if b < 128 then .ch b else .byte b

def skipSpaces : List Char → List Char
  | c :: cs => if isSpace c then skipSpaces cs else c :: cs
  | [] => []

/-- hex digits of `\u{...}`: value and rest after `}`. `none` when malformed or too large. -/
def readUHex : List Char → Nat → Bool → Option (Nat × List Char)
  | '}' :: cs, acc, seen => if seen then some (acc, cs) else none
  | c :: cs, acc, _ =>
    if isXDigit c then
      let v := acc * 16 + xdigitVal c
      if v < 2 ^ 31 then readUHex cs v true else none
    else none
  | [], _, _ => none

/-- Up to three decimal digits. -/
def readDec3 (cs : List Char) : Nat × List Char :=
  match cs with
  | a :: b :: c :: r =>
    if isDigit a && isDigit b && isDigit c then (digitVal a * 100 + digitVal b * 10 + digitVal c, r)
    else if isDigit a && isDigit b then (digitVal a * 10 + digitVal b, c :: r)
    else (digitVal a, b :: c :: r)
  | [a, b] => if isDigit a && isDigit b then (digitVal a * 10 + digitVal b, []) else (digitVal a, [b])
  | [a] => (digitVal a, [])
  | [] => (0, [])

/-- Body of a quoted string; `q` is the delimiter, already consumed. -/
def strBody (q : Char) : Nat → List Char → Option (List SUnit × List Char)
  | 0, _ => none
  | _ + 1, [] => none
  | f + 1, c :: cs =>
    if c == q then some ([], cs)
    else if c == '\n' || c == '\r' then none
    else if c == '\\' then
      match cs with
      | [] => none
      | 'x' :: h1 :: h2 :: r =>
        if isXDigit h1 && isXDigit h2 then
          (strBody q f r).map fun (v, r') => (byteUnit (xdigitVal h1 * 16 + xdigitVal h2) :: v, r')
        else none
      | 'x' :: _ => none
      | 'u' :: '{' :: r =>
        match readUHex r 0 false with
        | some (v, r') => (strBody q f r').map fun (vs, r'') => (.ch v :: vs, r'')
        | none => none
      | 'u' :: _ => none
      | 'z' :: r => strBody q f (skipSpaces r)
      | d :: r =>
        if isDigit d then
          let (v, r') := readDec3 (d :: r)
          if v ≤ 255 then (strBody q f r').map fun (vs, r'') => (byteUnit v :: vs, r'') else none
        else
          match escChar d with
          | some v => (strBody q f r).map fun (vs, r') => (.ch v :: vs, r')
          | none => none
    else (strBody q f cs).map fun (v, r) => (.ch c.toNat :: v, r)

/-! ## numerals -/

/-- `read_numeral`'s buffer: everything that looks like part of a numeral, plus one touching
letter (which then makes the conversion fail). -/
def numBuf (expo : Char → Bool) : Nat → List Char → List Char × List Char
  | 0, cs => ([], cs)
  | _ + 1, [] => ([], [])
  | f + 1, c :: cs =>
    if expo c then
      match cs with
      | s :: cs' =>
        if s == '+' || s == '-' then
          let (b, r) := numBuf expo f cs'; (c :: s :: b, r)
        else let (b, r) := numBuf expo f cs; (c :: b, r)
      | [] => ([c], [])
    else if isXDigit c || c == '.' then
      let (b, r) := numBuf expo f cs; (c :: b, r)
    else if isAlpha c then ([c], cs)
    else ([], c :: cs)

def spanP (p : Char → Bool) : List Char → List Char × List Char
  | c :: cs => if p c then let (a, b) := spanP p cs; (c :: a, b) else ([], c :: cs)
  | [] => ([], [])

/-- Parse a whole buffer as a numeral (the grammar accepted by `l_str2int` or `l_str2d`). -/
def parseNumeral (buf : List Char) : Option Numeral :=
  let (hex, body) := match buf with
    | '0' :: x :: r => if x == 'x' || x == 'X' then (true, r) else (false, buf)
    | _ => (false, buf)
  let dig := if hex then isXDigit else isDigit
  let (ip, r1) := spanP dig body
  let (fp, r2) : Option (List Char) × List Char := match r1 with
    | '.' :: r => let (f, r') := spanP dig r; (some f, r')
    | _ => (none, r1)
  let isExp (c : Char) : Bool := if hex then c == 'p' || c == 'P' else c == 'e' || c == 'E'
  let res : Option (Option (Bool × List Char)) := match r2 with
    | [] => some none
    | e :: r =>
      if isExp e then
        let (neg, r') := match r with
          | '+' :: r' => (false, r')
          | '-' :: r' => (true, r')
          | _ => (false, r)
        let (ds, r'') := spanP isDigit r'
        if r''.isEmpty then some (some (neg, ds)) else none
      else none
  match res with
  | none => none
  | some ex =>
    let n : Numeral := { hex := hex, ip := ip, fp := fp, ex := ex }
    if n.valid then some n else none

/-! ## the lexer -/

def symbols2 : List String := ["==", "~=", "<=", ">=", "<<", ">>", "//", "::", ".."]
def symbols1 : List Char :=
  ['+', '-', '*', '/', '%', '^', '#', '&', '~', '|', '<', '>', '=', '(', ')', '{', '}', '[', ']',
   ';', ':', ',', '.']

def spanName : List Char → List Char × List Char := spanP isAlnum

def untilNewline : List Char → List Char × List Char
  | '\n' :: cs => ([], '\n' :: cs)
  | c :: cs => let (a, b) := untilNewline cs; (c :: a, b)
  | [] => ([], [])

/-- Lex everything.  `n` is the total length, so the offset of `cs` is `n - cs.length`. -/
def lexLoop (n : Nat) : Nat → List Char → List (List Char) → Except LexErr (List Tok)
  | 0, _, _ => .error (.mk "out of fuel" 0)
  | _ + 1, [], cm => .ok [{ tk := .eof, off := n, comments := cm.reverse }]
  | f + 1, c :: cs, cm =>
    let off := n - (cs.length + 1)
    let emit (tk : Tk) (rest : List Char) : Except LexErr (List Tok) :=
      (lexLoop n f rest []).map fun ts => { tk := tk, off := off, comments := cm.reverse } :: ts
    if isSpace c then lexLoop n f cs cm
    else if c == '-' then
      match cs with
      | '-' :: r =>
        -- comment
        match longOpener r with
        | some (lvl, body) =>
          match longBody lvl body with
          | some (b, rest) => lexLoop n f rest (b :: cm)
          | none => .error (.mk "unfinished long comment" off)
        | none =>
          let (t, rest) := untilNewline r
          lexLoop n f rest (t :: cm)
      | _ => emit (.sym "-") cs
    else if c == '[' then
      match longOpener (c :: cs) with
      | some (lvl, body) =>
        match longBody lvl (dropFirstNewline body) with
        | some (b, rest) => emit (.str (b.map fun ch => .ch ch.toNat)) rest
        | none => .error (.mk "unfinished long string" off)
      | none =>
        match cs with
        | '=' :: _ => .error (.mk "invalid long string delimiter" off)
        | _ => emit (.sym "[") cs
    else if c == '"' || c == '\'' then
      match strBody c (cs.length + 1) cs with
      | some (v, rest) => emit (.str v) rest
      | none => .error (.mk "malformed string" off)
    else if isDigit c || (c == '.' && (match cs with | d :: _ => isDigit d | [] => false)) then
      let hexTail : Option (Char × List Char) :=
        if c == '0' then
          match cs with
          | x :: r => if x == 'x' || x == 'X' then some (x, r) else none
          | [] => none
        else none
      let (pre, body, expo) : List Char × List Char × (Char → Bool) :=
        match hexTail with
        | some (x, r) => ([c, x], r, fun e => e == 'p' || e == 'P')
        | none => ([], c :: cs, fun e => e == 'e' || e == 'E')
      let (buf, rest) := numBuf expo (body.length + 1) body
      match parseNumeral (pre ++ buf) with
      | some nm => emit (.num nm) rest
      | none => .error (.mk "malformed number" off)
    else if isAlpha c then
      let (nm, rest) := spanName (c :: cs)
      let s := String.ofList nm
      if keywords.contains s then emit (.kw s) rest else emit (.name s) rest
    else if c == '.' then
      match cs with
      | '.' :: '.' :: r => emit (.sym "...") r
      | '.' :: r => emit (.sym "..") r
      | _ => emit (.sym ".") cs
    else
      match cs with
      | d :: r =>
        let two := String.ofList [c, d]
        if symbols2.contains two then emit (.sym two) r
        else if symbols1.contains c then emit (.sym (String.ofList [c])) cs
        else .error (.mk "unexpected symbol" off)
      | [] =>
        if symbols1.contains c then emit (.sym (String.ofList [c])) cs
        else .error (.mk "unexpected symbol" off)

/-- The first line is ignored if it starts with `#` (manual §7, `luaL_loadfilex`). -/
def skipShebang : List Char → List Char
  | '#' :: cs => (untilNewline cs).2
  | cs => cs

def lex (src : List Char) : Except LexErr (List Tok) :=
  let body := skipShebang src
  lexLoop src.length (body.length + 1) body []

/-- 1-based line and column of an offset. -/
def posOf (src : List Char) (off : Nat) : Nat × Nat :=
  let pre := src.take off
  let line := 1 + pre.count '\n'
  let col := 1 + (pre.reverse.takeWhile (· != '\n')).length
  (line, col)

end Tumfl.Spec
