import Tumfl.Spec.Ops
/-!
# Lua's operator-precedence algorithm (`lparser.c: subexpr`), generic in the token cursor

`σ` is a token cursor (for the Spec: the remaining token list; for the model of tumfl: the parser
state with its two-token look-ahead and hint stack), `ε` the expression type, `T` the token type.
`simple` parses a "simple expression" (everything that is not an operator application).  The
Spec's full parser instantiates this with its own `simpleexp`; the theorems in
`Tumfl/Theory/Ladder.lean` hold for every instance.
-/
namespace Tumfl.Spec

structure ExprSig (σ ε Err T : Type) where
  peek : σ → T
  eat : σ → Except Err σ
  simple : σ → Except Err (ε × σ)
  binOf : T → Option BOp
  unOf : T → Option UOp
  mkBin : T → BOp → ε → ε → ε
  mkUn : T → UOp → ε → ε
  fuelErr : Err

variable {σ ε Err T : Type}

mutual
/-- `subexpr(limit)`: an operand, then operators while their left priority exceeds `limit`. -/
def climb (S : ExprSig σ ε Err T) : Nat → Nat → σ → Except Err (ε × σ)
  | 0, _, _ => .error S.fuelErr
  | f + 1, limit, s =>
    match S.unOf (S.peek s) with
    | some u =>
      match S.eat s with
      | .error e => .error e
      | .ok s1 =>
        match climb S f UPRI s1 with
        | .error e => .error e
        | .ok (e, s2) => climbLoop S f limit (S.mkUn (S.peek s) u e) s2
    | none =>
      match S.simple s with
      | .error e => .error e
      | .ok (e, s1) => climbLoop S f limit e s1
/-- the `while (op != OPR_NOBINOPR && priority[op].left > limit)` loop -/
def climbLoop (S : ExprSig σ ε Err T) : Nat → Nat → ε → σ → Except Err (ε × σ)
  | 0, _, _, _ => .error S.fuelErr
  | f + 1, limit, acc, s =>
    match S.binOf (S.peek s) with
    | some o =>
      if limit < lp o then
        match S.eat s with
        | .error e => .error e
        | .ok s1 =>
          match climb S f (rp o) s1 with
          | .error e => .error e
          | .ok (e2, s2) => climbLoop S f limit (S.mkBin (S.peek s) o acc e2) s2
      else .ok (acc, s)
    | none => .ok (acc, s)
end

end Tumfl.Spec
