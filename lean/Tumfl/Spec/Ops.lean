/-! Operators of Lua 5.4 and `lparser.c`'s priority table. -/
namespace Tumfl.Spec

inductive BOp
  | or | and | lt | gt | le | ge | ne | eq | bor | bxor | band | shl | shr
  | concat | add | sub | mul | div | idiv | mod | pow
  deriving DecidableEq, Repr, Inhabited

inductive UOp | neg | len | bnot | not
  deriving DecidableEq, Repr, Inhabited

/-- left priority (`priority[op].left`) -/
def lp : BOp → Nat
  | .or => 1 | .and => 2
  | .lt | .gt | .le | .ge | .ne | .eq => 3
  | .bor => 4 | .bxor => 5 | .band => 6 | .shl | .shr => 7
  | .concat => 9 | .add | .sub => 10
  | .mul | .div | .idiv | .mod => 11
  | .pow => 14

/-- right priority (`priority[op].right`) -/
def rp : BOp → Nat
  | .or => 1 | .and => 2
  | .lt | .gt | .le | .ge | .ne | .eq => 3
  | .bor => 4 | .bxor => 5 | .band => 6 | .shl | .shr => 7
  | .concat => 8 | .add | .sub => 10
  | .mul | .div | .idiv | .mod => 11
  | .pow => 13

/-- `UNARY_PRIORITY` -/
def UPRI : Nat := 12

def BOp.all : List BOp :=
  [.or, .and, .lt, .gt, .le, .ge, .ne, .eq, .bor, .bxor, .band, .shl, .shr,
   .concat, .add, .sub, .mul, .div, .idiv, .mod, .pow]

def UOp.all : List UOp := [.neg, .len, .bnot, .not]

def BOp.sym : BOp → String
  | .or => "or" | .and => "and" | .lt => "<" | .gt => ">" | .le => "<=" | .ge => ">=" | .ne => "~="
  | .eq => "==" | .bor => "|" | .bxor => "~" | .band => "&" | .shl => "<<" | .shr => ">>"
  | .concat => ".." | .add => "+" | .sub => "-" | .mul => "*" | .div => "/" | .idiv => "//"
  | .mod => "%" | .pow => "^"

def UOp.sym : UOp → String
  | .neg => "-" | .len => "#" | .bnot => "~" | .not => "not"

def BOp.idx : BOp → Nat
  | .or => 0 | .and => 1 | .lt => 2 | .gt => 3 | .le => 4 | .ge => 5 | .ne => 6 | .eq => 7
  | .bor => 8 | .bxor => 9 | .band => 10 | .shl => 11 | .shr => 12 | .concat => 13 | .add => 14
  | .sub => 15 | .mul => 16 | .div => 17 | .idiv => 18 | .mod => 19 | .pow => 20

end Tumfl.Spec
