import Tumfl.Spec.Lex
import Tumfl.Spec.Climb
/-!
# Reference parser for Lua 5.4 (the "Spec" side)

One function per function of `lparser.c` (statlist, statement, exprstat, suffixedexp, primaryexp,
simpleexp, subexpr via `climb`, constructor, body, ...), over the token list produced by
`Spec.lex`.  The tree keeps what the grammar distinguishes: a `paren` node, empty statements,
attributes of locals.  Purely syntactic (§9): no checks on `goto`/`break`/attribute names/vararg use.
-/
namespace Tumfl.Spec

mutual
inductive Exp
  | nil | tru | fls | vararg
  | num (n : Numeral)
  | str (v : List SUnit)
  | func (ps : List String) (va : Bool) (body : Block)
  | table (fs : List Field)
  | bin (o : BOp) (l r : Exp)
  | un (o : UOp) (e : Exp)
  | paren (e : Exp)
  | name (s : String)
  | index (p k : Exp)
  | dot (p : Exp) (n : String)
  | call (f : Exp) (args : List Exp)
  | mcall (f : Exp) (m : String) (args : List Exp)
inductive Field
  | pos (e : Exp)
  | named (n : String) (e : Exp)
  | keyed (k e : Exp)
inductive Stat
  | empty
  | assign (ts es : List Exp)
  | call (e : Exp)
  | label (n : String)
  | brk
  | goto (n : String)
  | doo (b : Block)
  | whl (c : Exp) (b : Block)
  | rep (b : Block) (c : Exp)
  | iff (c : Exp) (t : Block) (elifs : List ElseIf) (els : Option Block)
  | fornum (v : String) (a b : Exp) (s : Option Exp) (body : Block)
  | forin (ns : List String) (es : List Exp) (body : Block)
  | func (ns : List String) (m : Option String) (ps : List String) (va : Bool) (body : Block)
  | localfunc (n : String) (ps : List String) (va : Bool) (body : Block)
  | locl (ns : List (String × Option String)) (es : List Exp)
inductive ElseIf
  | mk (c : Exp) (b : Block)
inductive Block
  | mk (ss : List Stat) (ret : Option (List Exp))
end

instance : Inhabited Exp := ⟨.nil⟩
instance : Inhabited Stat := ⟨.empty⟩
instance : Inhabited Block := ⟨.mk [] none⟩

abbrev PErr := String × Nat

def pk (ts : List Tok) : Tk := match ts with | t :: _ => t.tk | [] => .eof
def offOf (ts : List Tok) : Nat := match ts with | t :: _ => t.off | [] => 0
def perr {α : Type} (msg : String) (ts : List Tok) : Except PErr α := .error (msg, offOf ts)

def isSym (s : String) (ts : List Tok) : Bool := match pk ts with | .sym x => x == s | _ => false
def isKw (s : String) (ts : List Tok) : Bool := match pk ts with | .kw x => x == s | _ => false

def expectSym (s : String) (ts : List Tok) : Except PErr (List Tok) :=
  if isSym s ts then .ok ts.tail else perr s!"'{s}' expected" ts
def expectKw (s : String) (ts : List Tok) : Except PErr (List Tok) :=
  if isKw s ts then .ok ts.tail else perr s!"'{s}' expected" ts
def expectName (ts : List Tok) : Except PErr (String × List Tok) :=
  match pk ts with | .name n => .ok (n, ts.tail) | _ => perr "<name> expected" ts

/-- `block_follow` -/
def blockFollow (withUntil : Bool) : Tk → Bool
  | .kw "else" | .kw "elseif" | .kw "end" | .eof => true
  | .kw "until" => withUntil
  | _ => false

def binOfTk : Tk → Option BOp
  | .kw "or" => some .or | .kw "and" => some .and
  | .sym "<" => some .lt | .sym ">" => some .gt | .sym "<=" => some .le | .sym ">=" => some .ge
  | .sym "~=" => some .ne | .sym "==" => some .eq | .sym "|" => some .bor | .sym "~" => some .bxor
  | .sym "&" => some .band | .sym "<<" => some .shl | .sym ">>" => some .shr
  | .sym ".." => some .concat | .sym "+" => some .add | .sym "-" => some .sub
  | .sym "*" => some .mul | .sym "/" => some .div | .sym "//" => some .idiv | .sym "%" => some .mod
  | .sym "^" => some .pow
  | _ => none

def unOfTk : Tk → Option UOp
  | .kw "not" => some .not | .sym "-" => some .neg | .sym "~" => some .bnot | .sym "#" => some .len
  | _ => none

def isVar : Exp → Bool
  | .name _ | .index _ _ | .dot _ _ => true
  | _ => false

def isCall : Exp → Bool
  | .call _ _ | .mcall _ _ _ => true
  | _ => false

def fuelErr : PErr := ("out of fuel", 0)

/-- The expression signature of the Spec parser for a given simple-expression parser. -/
def specSig (simple : List Tok → Except PErr (Exp × List Tok)) : ExprSig (List Tok) Exp PErr Tk where
  peek := pk
  eat := fun ts => .ok ts.tail
  simple := simple
  binOf := binOfTk
  unOf := unOfTk
  mkBin := fun _ o l r => .bin o l r
  mkUn := fun _ u e => .un u e
  fuelErr := fuelErr

mutual
def statlist : Nat → List Tok → Except PErr (List Stat × Option (List Exp) × List Tok)
  | 0, _ => .error fuelErr
  | f + 1, ts =>
    if blockFollow true (pk ts) then .ok ([], none, ts)
    else if isKw "return" ts then
      -- retstat; must be the last statement of the block
      let ts1 := ts.tail
      if blockFollow true (pk ts1) || isSym ";" ts1 then
        .ok ([], some [], if isSym ";" ts1 then ts1.tail else ts1)
      else do
        let (es, ts2) ← explist f ts1
        .ok ([], some es, if isSym ";" ts2 then ts2.tail else ts2)
    else do
      let (s, ts1) ← statement f ts
      let (ss, r, ts2) ← statlist f ts1
      .ok (s :: ss, r, ts2)

def block : Nat → List Tok → Except PErr (Block × List Tok)
  | 0, _ => .error fuelErr
  | f + 1, ts => do
    let (ss, r, ts1) ← statlist f ts
    .ok (.mk ss r, ts1)

def statement : Nat → List Tok → Except PErr (Stat × List Tok)
  | 0, _ => .error fuelErr
  | f + 1, ts =>
    match pk ts with
    | .sym ";" => .ok (.empty, ts.tail)
    | .kw "if" => do
      let (c, ts1) ← expr f ts.tail
      let ts2 ← expectKw "then" ts1
      let (b, ts3) ← block f ts2
      let (elifs, els, ts4) ← ifrest f ts3
      .ok (.iff c b elifs els, ts4)
    | .kw "while" => do
      let (c, ts1) ← expr f ts.tail
      let ts2 ← expectKw "do" ts1
      let (b, ts3) ← block f ts2
      let ts4 ← expectKw "end" ts3
      .ok (.whl c b, ts4)
    | .kw "do" => do
      let (b, ts1) ← block f ts.tail
      let ts2 ← expectKw "end" ts1
      .ok (.doo b, ts2)
    | .kw "for" => do
      let (n, ts1) ← expectName ts.tail
      if isSym "=" ts1 then do
        let (a, ts2) ← expr f ts1.tail
        let ts3 ← expectSym "," ts2
        let (b, ts4) ← expr f ts3
        if isSym "," ts4 then do
          let (s, ts5) ← expr f ts4.tail
          let ts6 ← expectKw "do" ts5
          let (body, ts7) ← block f ts6
          let ts8 ← expectKw "end" ts7
          .ok (.fornum n a b (some s) body, ts8)
        else do
          let ts6 ← expectKw "do" ts4
          let (body, ts7) ← block f ts6
          let ts8 ← expectKw "end" ts7
          .ok (.fornum n a b none body, ts8)
      else if isSym "," ts1 || isKw "in" ts1 then do
        let (ns, ts2) ← namelistRest f ts1
        let ts3 ← expectKw "in" ts2
        let (es, ts4) ← explist f ts3
        let ts5 ← expectKw "do" ts4
        let (body, ts6) ← block f ts5
        let ts7 ← expectKw "end" ts6
        .ok (.forin (n :: ns) es body, ts7)
      else perr "'=' or 'in' expected" ts1
    | .kw "repeat" => do
      let (b, ts1) ← block f ts.tail
      let ts2 ← expectKw "until" ts1
      let (c, ts3) ← expr f ts2
      .ok (.rep b c, ts3)
    | .kw "function" => do
      let (n, ts1) ← expectName ts.tail
      let (ns, ts2) ← dottedRest f ts1
      if isSym ":" ts2 then do
        let (m, ts3) ← expectName ts2.tail
        let (ps, va, b, ts4) ← body f ts3
        .ok (.func (n :: ns) (some m) ps va b, ts4)
      else do
        let (ps, va, b, ts4) ← body f ts2
        .ok (.func (n :: ns) none ps va b, ts4)
    | .kw "local" =>
      if isKw "function" ts.tail then do
        let (n, ts1) ← expectName ts.tail.tail
        let (ps, va, b, ts2) ← body f ts1
        .ok (.localfunc n ps va b, ts2)
      else do
        let (ns, ts1) ← attnamelist f ts.tail
        if isSym "=" ts1 then do
          let (es, ts2) ← explist f ts1.tail
          .ok (.locl ns es, ts2)
        else .ok (.locl ns [], ts1)
    | .sym "::" => do
      let (n, ts1) ← expectName ts.tail
      let ts2 ← expectSym "::" ts1
      .ok (.label n, ts2)
    | .kw "break" => .ok (.brk, ts.tail)
    | .kw "goto" => do
      let (n, ts1) ← expectName ts.tail
      .ok (.goto n, ts1)
    | _ => do
      -- exprstat
      let (e, ts1) ← suffixedexp f ts
      if isSym "=" ts1 || isSym "," ts1 then do
        let (vs, ts2) ← restassign f ts1
        let ts3 ← expectSym "=" ts2
        let (es, ts4) ← explist f ts3
        if (e :: vs).all isVar then .ok (.assign (e :: vs) es, ts4) else perr "syntax error" ts
      else if isCall e then .ok (.call e, ts1)
      else perr "syntax error" ts1

/-- `{ELSEIF cond THEN block} [ELSE block] END` -/
def ifrest : Nat → List Tok → Except PErr (List ElseIf × Option Block × List Tok)
  | 0, _ => .error fuelErr
  | f + 1, ts =>
    if isKw "elseif" ts then do
      let (c, ts1) ← expr f ts.tail
      let ts2 ← expectKw "then" ts1
      let (b, ts3) ← block f ts2
      let (elifs, els, ts4) ← ifrest f ts3
      .ok (.mk c b :: elifs, els, ts4)
    else if isKw "else" ts then do
      let (b, ts1) ← block f ts.tail
      let ts2 ← expectKw "end" ts1
      .ok ([], some b, ts2)
    else do
      let ts1 ← expectKw "end" ts
      .ok ([], none, ts1)

/-- `{',' NAME}` -/
def namelistRest : Nat → List Tok → Except PErr ((List String) × List Tok)
  | 0, _ => .error fuelErr
  | f + 1, ts =>
    if isSym "," ts then do
      let (n, ts1) ← expectName ts.tail
      let (ns, ts2) ← namelistRest f ts1
      .ok (n :: ns, ts2)
    else .ok ([], ts)

/-- `{'.' NAME}` -/
def dottedRest : Nat → List Tok → Except PErr ((List String) × List Tok)
  | 0, _ => .error fuelErr
  | f + 1, ts =>
    if isSym "." ts then do
      let (n, ts1) ← expectName ts.tail
      let (ns, ts2) ← dottedRest f ts1
      .ok (n :: ns, ts2)
    else .ok ([], ts)

/-- `NAME attrib {',' NAME attrib}` -/
def attnamelist : Nat → List Tok → Except PErr ((List (String × Option String)) × List Tok)
  | 0, _ => .error fuelErr
  | f + 1, ts => do
    let (n, ts1) ← expectName ts
    let (a, ts2) ← (if isSym "<" ts1 then do
        let (a, t2) ← expectName ts1.tail
        let t3 ← expectSym ">" t2
        .ok (some a, t3)
      else .ok (none, ts1) : Except PErr ((Option String) × List Tok))
    if isSym "," ts2 then do
      let (ns, ts3) ← attnamelist f ts2.tail
      .ok ((n, a) :: ns, ts3)
    else .ok ([(n, a)], ts2)

/-- `{',' suffixedexp}` of an assignment -/
def restassign : Nat → List Tok → Except PErr ((List Exp) × List Tok)
  | 0, _ => .error fuelErr
  | f + 1, ts =>
    if isSym "," ts then do
      let (e, ts1) ← suffixedexp f ts.tail
      let (es, ts2) ← restassign f ts1
      .ok (e :: es, ts2)
    else .ok ([], ts)

def explist : Nat → List Tok → Except PErr ((List Exp) × List Tok)
  | 0, _ => .error fuelErr
  | f + 1, ts => do
    let (e, ts1) ← expr f ts
    if isSym "," ts1 then do
      let (es, ts2) ← explist f ts1.tail
      .ok (e :: es, ts2)
    else .ok ([e], ts1)

def expr : Nat → List Tok → Except PErr (Exp × List Tok)
  | 0, _ => .error fuelErr
  | f + 1, ts => climb (specSig (simpleexp f)) (f + 1) 0 ts

def simpleexp : Nat → List Tok → Except PErr (Exp × List Tok)
  | 0, _ => .error fuelErr
  | f + 1, ts =>
    match pk ts with
    | .num n => .ok (.num n, ts.tail)
    | .str v => .ok (.str v, ts.tail)
    | .kw "nil" => .ok (.nil, ts.tail)
    | .kw "true" => .ok (.tru, ts.tail)
    | .kw "false" => .ok (.fls, ts.tail)
    | .sym "..." => .ok (.vararg, ts.tail)
    | .sym "{" => do
      let (fs, ts1) ← fields f ts.tail
      .ok (.table fs, ts1)
    | .kw "function" => do
      let (ps, va, b, ts1) ← body f ts.tail
      .ok (.func ps va b, ts1)
    | _ => suffixedexp f ts

def suffixedexp : Nat → List Tok → Except PErr (Exp × List Tok)
  | 0, _ => .error fuelErr
  | f + 1, ts =>
    match pk ts with
    | .name n => suffixes f (.name n) ts.tail
    | .sym "(" => do
      let (e, ts1) ← expr f ts.tail
      let ts2 ← expectSym ")" ts1
      suffixes f (.paren e) ts2
    | _ => perr "unexpected symbol" ts

def suffixes : Nat → Exp → List Tok → Except PErr (Exp × List Tok)
  | 0, _, _ => .error fuelErr
  | f + 1, e, ts =>
    match pk ts with
    | .sym "." => do
      let (n, ts1) ← expectName ts.tail
      suffixes f (.dot e n) ts1
    | .sym "[" => do
      let (k, ts1) ← expr f ts.tail
      let ts2 ← expectSym "]" ts1
      suffixes f (.index e k) ts2
    | .sym ":" => do
      let (m, ts1) ← expectName ts.tail
      let (args, ts2) ← funcargs f ts1
      suffixes f (.mcall e m args) ts2
    | .sym "(" | .sym "{" | .str _ => do
      let (args, ts1) ← funcargs f ts
      suffixes f (.call e args) ts1
    | _ => .ok (e, ts)

def funcargs : Nat → List Tok → Except PErr ((List Exp) × List Tok)
  | 0, _ => .error fuelErr
  | f + 1, ts =>
    match pk ts with
    | .sym "(" =>
      if isSym ")" ts.tail then .ok ([], ts.tail.tail)
      else do
        let (es, ts1) ← explist f ts.tail
        let ts2 ← expectSym ")" ts1
        .ok (es, ts2)
    | .sym "{" => do
      let (fs, ts1) ← fields f ts.tail
      .ok ([.table fs], ts1)
    | .str v => .ok ([.str v], ts.tail)
    | _ => perr "function arguments expected" ts

/-- the inside of a table constructor, after `{`, up to and including `}` -/
def fields : Nat → List Tok → Except PErr ((List Field) × List Tok)
  | 0, _ => .error fuelErr
  | f + 1, ts =>
    if isSym "}" ts then .ok ([], ts.tail)
    else do
      let (fd, ts1) ← (match pk ts with
        | .name n =>
          if isSym "=" ts.tail then do
            let (e, t2) ← expr f ts.tail.tail
            .ok (.named n e, t2)
          else do
            let (e, t2) ← expr f ts
            .ok (.pos e, t2)
        | .sym "[" => do
          let (k, t1) ← expr f ts.tail
          let t2 ← expectSym "]" t1
          let t3 ← expectSym "=" t2
          let (e, t4) ← expr f t3
          .ok (.keyed k e, t4)
        | _ => do
          let (e, t2) ← expr f ts
          .ok (.pos e, t2) : Except PErr (Field × List Tok))
      if isSym "," ts1 || isSym ";" ts1 then do
        let (fs, ts2) ← fields f ts1.tail
        .ok (fd :: fs, ts2)
      else do
        let ts2 ← expectSym "}" ts1
        .ok ([fd], ts2)

/-- `'(' parlist ')' block END` -/
def body : Nat → List Tok → Except PErr (List String × Bool × Block × List Tok)
  | 0, _ => .error fuelErr
  | f + 1, ts => do
    let ts1 ← expectSym "(" ts
    let (ps, va, ts2) ← parlist f ts1
    let ts3 ← expectSym ")" ts2
    let (b, ts4) ← block f ts3
    let ts5 ← expectKw "end" ts4
    .ok (ps, va, b, ts5)

def parlist : Nat → List Tok → Except PErr (List String × Bool × List Tok)
  | 0, _ => .error fuelErr
  | f + 1, ts =>
    if isSym ")" ts then .ok ([], false, ts)
    else
      match pk ts with
      | .sym "..." => .ok ([], true, ts.tail)
      | .name n =>
        if isSym "," ts.tail then do
          let (ps, va, ts1) ← parlist1 f ts.tail.tail
          .ok (n :: ps, va, ts1)
        else .ok ([n], false, ts.tail)
      | _ => perr "<name> expected" ts

/-- after a comma in a parameter list: a name or `...` is required -/
def parlist1 : Nat → List Tok → Except PErr (List String × Bool × List Tok)
  | 0, _ => .error fuelErr
  | f + 1, ts =>
    match pk ts with
    | .sym "..." => .ok ([], true, ts.tail)
    | .name n =>
      if isSym "," ts.tail then do
        let (ps, va, ts1) ← parlist1 f ts.tail.tail
        .ok (n :: ps, va, ts1)
      else .ok ([n], false, ts.tail)
    | _ => perr "<name> expected" ts
end

/-- `mainfunc`: a block followed by the end of input. -/
def parseToks (ts : List Tok) : Except PErr Block :=
  match block (4 * ts.length + 64) ts with
  | .error e => .error e
  | .ok (b, rest) => if pk rest == .eof then .ok b else perr "'<eof>' expected" rest

inductive SpecErr
  | lex (msg : String) (off : Nat)
  | parse (msg : String) (off : Nat)
  deriving Repr

def parse (src : List Char) : Except SpecErr Block :=
  match lex src with
  | .error (.mk m o) => .error (.lex m o)
  | .ok ts =>
    match parseToks ts with
    | .error (m, o) => .error (.parse m o)
    | .ok b => .ok b

end Tumfl.Spec
