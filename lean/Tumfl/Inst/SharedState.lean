import Tumfl.Gen.SharedState
/-! Obligations on the shared-state scan (re-decided on every run). -/
namespace Tumfl.Inst

/-- no function reachable from the API entry points writes to a module-level mutable object -/
theorem no_shared_writes : Gen.sharedWrites = [] := by decide
/-- formatter.py never stores to an attribute of, or calls a mutating method on, anything reached through its arguments -/
theorem format_leaves_arguments : Gen.formatArgWrites = [] := by decide

end Tumfl.Inst
