import Tumfl.Theory.Print
/-!
# Obligation on the extracted bracket tables (re-decided by the kernel on every run)

`decide +kernel` evaluates `Dec.sound` on the bit tables in `Gen/Brackets.lean`: for each of the 8
option sets, 21 x 4 + 21 x 21 x 2 + 4 x 21 table entries.  If a change to the formatter drops a
needed bracket, this file stops compiling and the falsifying entry is the counterexample recipe.
-/
namespace Tumfl.Inst
open Tumfl.Spec Tumfl.Model Tumfl.Theory

/-- the decision record of the real formatter under option set `s` -/
def tumflDec (s : BrOpts) : Dec where
  needL o k := needBin s o true k
  needR o k := needBin s o false k
  needU u k := needUn s u k

theorem BrOpts.all_complete (s : BrOpts) : s ∈ BrOpts.all := by
  obtain ⟨a, b, c⟩ := s
  cases a <;> cases b <;> cases c <;> simp [BrOpts.all]

theorem brackets_sound_all : (BrOpts.all.all fun s => (tumflDec s).sound) = true := by decide +kernel

theorem brackets_sound (s : BrOpts) : (tumflDec s).sound = true :=
  List.all_eq_true.mp brackets_sound_all s (BrOpts.all_complete s)

end Tumfl.Inst
