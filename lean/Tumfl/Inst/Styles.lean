import Tumfl.Model.Emit
import Tumfl.Gen.FmtTables
import Tumfl.Theory.FormatTextDefs
/-!
# The two built-in styles, tied to formatter.py

`Gen.defaultStyleRepr` / `Gen.minifiedStyleRepr` are the attribute values of `FormattingStyle` / `MinifiedStyle`, read from the classes on every
run (T1: FmtTables).  `defaultStyle` / `minifiedStyle` are the model records; `*_repr_ok` (decided by the kernel on every run) say they render to
exactly those values, so a change of a default in formatter.py breaks an obligation.  Both are of the documented kind (`DocStyle`).
-/
namespace Tumfl.Inst
open Tumfl.Model Tumfl.Theory

def defaultStyle : Style := ⟨['\n'], ['\t'], [',', ' '], true, [' '], false, false, false, false, true, true, 4, 120, 5, false⟩
def minifiedStyle : Style := ⟨[';'], [], [','], false, [], true, true, true, false, true, true, 1, 0, 0, false⟩

/-- Python `repr` of a short string of printable characters, `\n` and `\t` -/
def pyReprStr (s : List Char) : String :=
  "'" ++ String.join (s.map fun c => if c == '\n' then "\\n" else if c == '\t' then "\\t" else String.singleton c) ++ "'"
def pyReprBool (b : Bool) : String := if b then "True" else "False"

def styleRepr (s : Style) : List (String × String) :=
  [("STATEMENT_SEPARATOR", pyReprStr s.statementSeparator), ("INDENTATION", pyReprStr s.indentation),
   ("ARGUMENT_SEPARATOR", pyReprStr s.argumentSeparator), ("INCLUDE_COMMENTS", pyReprBool s.includeComments),
   ("COMMENT_SEP", pyReprStr s.commentSep), ("USE_SINGLE_QUOTE", pyReprBool s.useSingleQuote),
   ("USE_CALL_SHORTHAND", pyReprBool s.useCallShorthand), ("REMOVE_UNNECESSARY_CHARS", pyReprBool s.removeUnnecessaryChars),
   ("ADD_ALL_BRACKETS", pyReprBool s.addAllBrackets), ("ADD_CLOSE_BRACKETS", pyReprBool s.addCloseBrackets),
   ("SPACE_IN_TABLE", pyReprBool s.spaceInTable), ("NEWLINE_LIMIT", toString s.newlineLimit), ("LINE_WIDTH", toString s.lineWidth),
   ("BLOCK_SPACER", toString s.blockSpacer), ("KEEP_SEMICOLON", pyReprBool s.keepSemicolon)]

theorem defaultStyle_repr_ok : styleRepr defaultStyle = Gen.defaultStyleRepr := by decide +kernel
theorem minifiedStyle_repr_ok : styleRepr minifiedStyle = Gen.minifiedStyleRepr := by decide +kernel

theorem defaultStyle_doc : DocStyle defaultStyle :=
  ⟨Or.inl rfl, by decide, Or.inr rfl, by decide⟩
theorem minifiedStyle_doc : DocStyle minifiedStyle :=
  ⟨Or.inr rfl, by decide, Or.inl rfl, by decide⟩

end Tumfl.Inst
