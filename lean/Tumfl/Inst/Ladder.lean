import Tumfl.Theory.Ladder
import Tumfl.Model.Parser
/-!
# Obligation on the extracted ladder table (re-decided by the kernel on every run)

`Model.ladderLevels` / `Model.powOps` are computed from `Gen/Ladder.lean` (read from parser.py).  If a
change to the parser moves an operator to another level or switches a level's associativity helper,
`model_ladder_ok` stops compiling.
-/
namespace Tumfl.Inst
open Tumfl.Spec Tumfl.Model Tumfl.Theory

theorem model_ladder_ok : LadderOK Model.ladderLevels Model.powOps = true := by decide +kernel

/-- tumfl's expression ladder accepts exactly what Lua's `subexpr` accepts and builds the same tree,
for every token cursor / atom parser -/
theorem model_ladder_iff_climb {σ ε Err T : Type} (S : ExprSig σ ε Err T) (s : σ) (r : ε × σ) :
    (∃ f, ladderExp S Model.ladderLevels Model.powOps f s = .ok r) ↔ (∃ f, climb S f 0 s = .ok r) :=
  ladder_iff_climb S Model.ladderLevels Model.powOps model_ladder_ok s r

end Tumfl.Inst
