import Tumfl.Model.Lexer
import Tumfl.Spec.Lex
/-!
# Table facts used by `Tumfl/Theory/StrRead.lean`

Closed facts about the extracted tables `Gen.escapeCodes`, `Gen.number`, `Gen.hexNumber`,
`Gen.whitespace` (re-decided on every build, so a change of the tables in `tumfl/lexer.py` that
breaks the string-reading theorems stops this file from compiling), and the agreement of the tables
with the character classes of the reference lexer (`Spec.isSpace`, `Spec.isDigit`, `Spec.isXDigit`,
`Spec.escChar`).
-/
namespace Tumfl.Inst
open Tumfl.Model

/-- every entry of `ESCAPE_CODES` is found by `lookup` (no duplicate letters), is none of the letters
that `escapeSeq` tests first, and is exactly what the reference `escChar` says -/
theorem escapeCodes_facts : ∀ p ∈ Gen.escapeCodes,
    Gen.escapeCodes.lookup p.1 = some p.2 ∧ (p.1 == 'z') = false ∧ (p.1 == 'x') = false ∧
    (p.1 == 'u') = false ∧ Gen.number.contains p.1 = false ∧
    Spec.escChar p.1 = some p.2.toNat ∧ Spec.isDigit p.1 = false := by decide

/-- conversely, the 11 letters of the reference are in the table with the same value -/
theorem escChar_in_table : ∀ l ∈ ['a', 'b', 'f', 'n', 'r', 't', 'v', '\\', '"', '\'', '\n'],
    ∃ v, Gen.escapeCodes.lookup l = some v ∧ Spec.escChar l = some v.toNat := by
  decide

theorem escapeCodes_length : Gen.escapeCodes.length = 11 := by decide

theorem number_facts : ∀ d ∈ Gen.number,
    (d == 'z') = false ∧ (d == 'x') = false ∧ (d == 'u') = false ∧
    Spec.isDigit d = true ∧ Spec.digitVal d = d.toNat - 48 ∧ d.toNat - 48 ≤ 9 := by decide

theorem hexNumber_facts : ∀ d ∈ Gen.hexNumber,
    Spec.isXDigit d = true ∧ Spec.xdigitVal d = hexVal d ∧ hexVal d ≤ 15 ∧ (d == '}') = false := by decide

theorem whitespace_facts : ∀ w ∈ Gen.whitespace, Spec.isSpace w = true := by decide

theorem quote_facts : ∀ q ∈ ['"', '\''],
    Gen.whitespace.contains q = false ∧ Gen.number.contains q = false ∧ q ≠ '\\' ∧ q ≠ '\n' ∧ q ≠ '\r' := by decide

/-! ## the character classes of the reference agree with the tables on *all* characters -/

theorem char_le_iff (a b : Char) : a ≤ b ↔ a.toNat ≤ b.toNat := by
  rw [Char.le_def, UInt32.le_iff_toNat_le]; rfl

theorem isSpace_eq (c : Char) : Spec.isSpace c = Gen.whitespace.contains c := by
  have e1 : Char.ofNat 32 = ' ' := by decide
  have e2 : Char.ofNat 12 = '\x0c' := by decide
  have e3 : Char.ofNat 10 = '\n' := by decide
  have e4 : Char.ofNat 13 = '\r' := by decide
  have e5 : Char.ofNat 9 = '\t' := by decide
  have e6 : Char.ofNat 11 = '\x0b' := by decide
  simp only [Spec.isSpace, Gen.whitespace, List.contains_cons, List.contains_nil, e1, e2, e3, e4, e5, e6,
    Bool.or_false, Bool.or_assoc]

theorem isDigit_of_not_mem (c : Char) (h : Gen.number.contains c = false) : Spec.isDigit c = false := by
  cases hd : Spec.isDigit c
  · rfl
  · exfalso
    simp only [Spec.isDigit, Bool.and_eq_true, decide_eq_true_eq, char_le_iff] at hd
    have h0 : ('0' : Char).toNat = 48 := by decide
    have h9 : ('9' : Char).toNat = 57 := by decide
    rw [h0, h9] at hd
    have hc : c = Char.ofNat c.toNat := (Char.ofNat_toNat c).symm
    have : c.toNat = 48 ∨ c.toNat = 49 ∨ c.toNat = 50 ∨ c.toNat = 51 ∨ c.toNat = 52 ∨ c.toNat = 53 ∨
        c.toNat = 54 ∨ c.toNat = 55 ∨ c.toNat = 56 ∨ c.toNat = 57 := by omega
    rcases this with e | e | e | e | e | e | e | e | e | e <;> rw [e] at hc <;> subst hc <;> revert h <;> decide

theorem isDigit_eq (c : Char) : Spec.isDigit c = Gen.number.contains c := by
  cases h : Gen.number.contains c
  · exact isDigit_of_not_mem c h
  · exact (number_facts c (by simpa using h)).2.2.2.1

end Tumfl.Inst
