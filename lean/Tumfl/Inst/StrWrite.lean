import Tumfl.Theory.StrWrite
/-!
# Obligation on the extracted escape table (re-decided by the kernel on every run)

`EscTableOK Gen.escapeCharacters`: every `(character, letter)` entry of the formatter's
`ESCAPE_CHARACTERS` is a simple escape of the reference lexer that stands for exactly that character,
and the letter does not start a longer escape (`x`, `u`, `z`, a digit).  If the formatter's table
changes in a way that breaks this, this file stops compiling.
-/
namespace Tumfl.Inst
open Tumfl.Spec Tumfl.Model Tumfl.Theory

theorem escTable_ok : EscTableOK Gen.escapeCharacters = true := by decide

/-- THE MAIN THEOREM (quoted form) for the real table: what `visitString` writes between the quotes,
followed by the closing quote, reads back as exactly the value. -/
theorem quoted_roundtrip (q : Char) (hq : q = '"' ∨ q = '\'') (v rest : List Char) :
    ∃ f, Spec.strBody q f (v.flatMap (escapeChar q) ++ q :: rest) =
      some (v.map (fun c => Spec.SUnit.ch c.toNat), rest) :=
  ⟨v.length + 1, quoted_roundtrip_with escTable_ok q hq v rest⟩

/-- the same with the fuel the reference lexer actually uses (`lexLoop` calls `strBody c (cs.length + 1) cs`):
any fuel above `v.length` works -/
theorem quoted_roundtrip_fuel (q : Char) (hq : q = '"' ∨ q = '\'') (v rest : List Char) :
    Spec.strBody q (v.length + 1) (v.flatMap (escapeChar q) ++ q :: rest) =
      some (v.map (fun c => Spec.SUnit.ch c.toNat), rest) :=
  quoted_roundtrip_with escTable_ok q hq v rest

end Tumfl.Inst

section
open Tumfl.Theory Tumfl.Inst
end
