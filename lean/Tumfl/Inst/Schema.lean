import Tumfl.Theory.Tree
import Tumfl.Gen.Schema
/-!
# Obligations on the extracted AST schema (re-decided by the kernel on every run) and the bridge to `Theory/Tree.lean`

`Gen/Schema.lean` is extracted from the real classes by introspection.  The five Boolean obligations below are
evaluated by `decide +kernel`; if a change to the AST classes makes `__eq__` skip a structural slot, makes `parent()`
or the walker miss a child slot, or the sample stops exercising a slot, this file stops compiling and the offending
class/slot is the counterexample recipe.

The bridge: a tree that is `wellTyped` against the schema satisfies the hypotheses of `eqG_iff_eq` (via `schema_eq`)
and of `links_eq_allEdges` (via `schema_links`, resp. `schema_walk` for the walker).
-/
namespace Tumfl.Inst
open Tumfl.Model Tumfl.Theory

/-! ## the decidable obligations -/

/-- the slots that hold children -/
def childSlots (c : Gen.ClassSchema) : List String := (c.slots.filter fun p => p.2 != "atom").map (·.1)
/-- the slots that hold atomic values -/
def atomSlots (c : Gen.ClassSchema) : List String := (c.slots.filter fun p => p.2 == "atom").map (·.1)

/-- every child slot that held children carries correct parent links -/
def SchemaLinks : Bool := Gen.schema.all fun c => (childSlots c).all fun s => c.linked.contains s
/-- ... and is visited exactly once by the generic walker -/
def SchemaWalk : Bool := Gen.schema.all fun c => (childSlots c).all fun s => c.walked.contains s
/-- the sample exercised every child slot (otherwise the two above are vacuous for it) -/
def SchemaExercised : Bool := Gen.schema.all fun c => (childSlots c).all fun s => c.exercised.contains s
/-- `__eq__` compares every structural slot and nothing else but `_abc_impl` (a class constant) and `attributes` (assigned nowhere in the package: stays `None`) -/
def SchemaEq : Bool := Gen.schema.all fun c => (c.slots.all fun p => c.compared.contains p.1) &&
  (c.compared.all fun a => (c.slots.map (·.1)).contains a || ["_abc_impl", "attributes"].contains a)
/-- `replace_child` substitutes exactly the given child in every child slot (names wrapped in `AttributedName` included) -/
def SchemaReplace : Bool := Gen.schema.all fun c => (childSlots c).all fun s => c.replaced.contains s
/-- no slot held a mixture of nodes and non-nodes -/
def SchemaNoMixed : Bool := Gen.schema.all fun c => c.slots.all fun p => !(p.2.startsWith "mixed")

theorem schema_links : SchemaLinks = true := by decide +kernel
theorem schema_walk : SchemaWalk = true := by decide +kernel
theorem schema_exercised : SchemaExercised = true := by decide +kernel
theorem schema_eq : SchemaEq = true := by decide +kernel
theorem schema_no_mixed : SchemaNoMixed = true := by decide +kernel
theorem schema_replace : SchemaReplace = true := by decide +kernel

/-! ## the bridge from the schema to the hypotheses of the tree theory -/

/-- the schema entry of a class -/
def lookup (cls : String) : Option Gen.ClassSchema := Gen.schema.find? (·.cls == cls)

/-- what `__eq__` compares for a class -/
def cmpOf (cls : String) : List String :=
  match Gen.schema.find? (·.cls == cls) with | some c => c.compared | none => []
/-- what `parent()` links for a class -/
def scanOf (cls : String) : List String :=
  match Gen.schema.find? (·.cls == cls) with | some c => c.linked | none => []
/-- what the generic walker visits for a class -/
def walkOf (cls : String) : List String :=
  match Gen.schema.find? (·.cls == cls) with | some c => c.walked | none => []

mutual
/-- the node's class is in the schema, its atom names are exactly the schema's atom slots and its kid slot names
exactly the schema's child slots, in schema order; recursively -/
def wellTyped : GT → Bool
  | .mk c atoms kids =>
    (match lookup c with
     | some s => atoms.map (·.1) == atomSlots s && kids.map (·.1) == childSlots s
     | none => false) && wellTypedSlots kids
def wellTypedSlots : List (String × List GT) → Bool
  | [] => true
  | (_, ts) :: rest => wellTypedList ts && wellTypedSlots rest
def wellTypedList : List GT → Bool
  | [] => true
  | t :: rest => wellTyped t && wellTypedList rest
end

theorem lookup_mem {c : String} {s : Gen.ClassSchema} (h : lookup c = some s) : s ∈ Gen.schema :=
  List.mem_of_find?_eq_some h

theorem cmpOf_lookup {c : String} {s : Gen.ClassSchema} (h : lookup c = some s) : cmpOf c = s.compared := by
  unfold lookup at h; simp only [cmpOf, h]
theorem scanOf_lookup {c : String} {s : Gen.ClassSchema} (h : lookup c = some s) : scanOf c = s.linked := by
  unfold lookup at h; simp only [scanOf, h]
theorem walkOf_lookup {c : String} {s : Gen.ClassSchema} (h : lookup c = some s) : walkOf c = s.walked := by
  unfold lookup at h; simp only [walkOf, h]

/-- unpacking the local part of `wellTyped` -/
theorem wellTyped_mk {c : String} {atoms : List (String × String)} {kids : List (String × List GT)}
    (h : wellTyped (.mk c atoms kids) = true) :
    ∃ s, lookup c = some s ∧ atoms.map (·.1) = atomSlots s ∧ kids.map (·.1) = childSlots s ∧
      wellTypedSlots kids = true := by
  simp only [wellTyped, Bool.and_eq_true] at h
  obtain ⟨h1, h2⟩ := h
  cases hl : lookup c with
  | none => rw [hl] at h1; simp at h1
  | some s =>
    rw [hl] at h1
    simp only [Bool.and_eq_true, beq_iff_eq] at h1
    exact ⟨s, rfl, h1.1, h1.2, h2⟩

theorem atomSlots_sub {s : Gen.ClassSchema} {n : String} (h : n ∈ atomSlots s) : n ∈ s.slots.map (·.1) := by
  simp only [atomSlots, List.mem_map, List.mem_filter] at h ⊢
  obtain ⟨p, ⟨hp, _⟩, e⟩ := h
  exact ⟨p, hp, e⟩
theorem childSlots_sub {s : Gen.ClassSchema} {n : String} (h : n ∈ childSlots s) : n ∈ s.slots.map (·.1) := by
  simp only [childSlots, List.mem_map, List.mem_filter] at h ⊢
  obtain ⟨p, ⟨hp, _⟩, e⟩ := h
  exact ⟨p, hp, e⟩

/-- `schema_eq`, pointwise: every structural slot of a schema class is compared -/
theorem compared_of_slot {s : Gen.ClassSchema} (hs : s ∈ Gen.schema) {n : String}
    (hn : n ∈ s.slots.map (·.1)) : s.compared.contains n = true := by
  have h := schema_eq
  simp only [SchemaEq, List.all_eq_true, Bool.and_eq_true] at h
  obtain ⟨p, hp, e⟩ := List.mem_map.mp hn
  exact e ▸ (h s hs).1 p hp
/-- `schema_links`, pointwise -/
theorem linked_of_child {s : Gen.ClassSchema} (hs : s ∈ Gen.schema) {n : String}
    (hn : n ∈ childSlots s) : s.linked.contains n = true := by
  have h := schema_links
  simp only [SchemaLinks, List.all_eq_true] at h
  exact h s hs n hn
/-- `schema_walk`, pointwise -/
theorem walked_of_child {s : Gen.ClassSchema} (hs : s ∈ Gen.schema) {n : String}
    (hn : n ∈ childSlots s) : s.walked.contains n = true := by
  have h := schema_walk
  simp only [SchemaWalk, List.all_eq_true] at h
  exact h s hs n hn

mutual
theorem wellTyped_covered (t : GT) (h : wellTyped t = true) : covered cmpOf t = true := by
  match t with
  | .mk c atoms kids =>
    obtain ⟨s, hl, ha, hk, hw⟩ := wellTyped_mk h
    simp only [covered, Bool.and_eq_true, cmpOf_lookup hl]
    constructor
    · rw [List.all_eq_true]
      intro p hp
      apply compared_of_slot (lookup_mem hl)
      apply atomSlots_sub
      rw [← ha]; exact List.mem_map.mpr ⟨p, hp, rfl⟩
    · apply wellTypedSlots_covered _ kids _ hw
      intro n hn
      apply compared_of_slot (lookup_mem hl)
      apply childSlots_sub
      rw [← hk]; exact hn
theorem wellTypedSlots_covered (attrs : List String) (kids : List (String × List GT))
    (hn : ∀ n ∈ kids.map (·.1), attrs.contains n = true) (h : wellTypedSlots kids = true) :
    coveredSlots cmpOf attrs kids = true := by
  match kids with
  | [] => simp [coveredSlots]
  | (n, ts) :: rest =>
    simp only [wellTypedSlots, Bool.and_eq_true] at h
    simp only [coveredSlots, Bool.and_eq_true]
    refine ⟨⟨hn n (by simp), wellTypedList_covered ts h.1⟩, wellTypedSlots_covered attrs rest ?_ h.2⟩
    intro m hm
    exact hn m (by simp only [List.map_cons, List.mem_cons]; exact Or.inr hm)
theorem wellTypedList_covered (ts : List GT) (h : wellTypedList ts = true) : coveredList cmpOf ts = true := by
  match ts with
  | [] => simp [coveredList]
  | t :: rest =>
    simp only [wellTypedList, Bool.and_eq_true] at h
    simp only [coveredList, Bool.and_eq_true]
    exact ⟨wellTyped_covered t h.1, wellTypedList_covered rest h.2⟩
end

/-- generic form of the second bridge: any per-class attribute table `tbl` that contains every child slot of
every schema class reaches every slot of a well-typed tree -/
structure Reaches (f : String → List String) : Prop where
  reach : ∀ {c s n}, lookup c = some s → n ∈ childSlots s → (f c).contains n = true

mutual
theorem wellTyped_slotsIn_of (f : String → List String) (hf : Reaches f) (t : GT) (h : wellTyped t = true) :
    slotsIn f t = true := by
  match t with
  | .mk c atoms kids =>
    obtain ⟨s, hl, _, hk, hw⟩ := wellTyped_mk h
    simp only [slotsIn]
    apply wellTypedSlots_slotsIn_of f hf _ kids _ hw
    intro n hn
    exact hf.reach hl (hk ▸ hn)
theorem wellTypedSlots_slotsIn_of (f : String → List String) (hf : Reaches f) (attrs : List String)
    (kids : List (String × List GT))
    (hn : ∀ n ∈ kids.map (·.1), attrs.contains n = true) (h : wellTypedSlots kids = true) :
    slotsInSlots f attrs kids = true := by
  match kids with
  | [] => simp [slotsInSlots]
  | (n, ts) :: rest =>
    simp only [wellTypedSlots, Bool.and_eq_true] at h
    simp only [slotsInSlots, Bool.and_eq_true]
    refine ⟨⟨hn n (by simp), wellTypedList_slotsIn_of f hf ts h.1⟩,
      wellTypedSlots_slotsIn_of f hf attrs rest ?_ h.2⟩
    intro m hm
    exact hn m (by simp only [List.map_cons, List.mem_cons]; exact Or.inr hm)
theorem wellTypedList_slotsIn_of (f : String → List String) (hf : Reaches f) (ts : List GT)
    (h : wellTypedList ts = true) : slotsInList f ts = true := by
  match ts with
  | [] => simp [slotsInList]
  | t :: rest =>
    simp only [wellTypedList, Bool.and_eq_true] at h
    simp only [slotsInList, Bool.and_eq_true]
    exact ⟨wellTyped_slotsIn_of f hf t h.1, wellTypedList_slotsIn_of f hf rest h.2⟩
end

theorem scanOf_reaches : Reaches scanOf :=
  ⟨fun hl hn => by rw [scanOf_lookup hl]; exact linked_of_child (lookup_mem hl) hn⟩
theorem walkOf_reaches : Reaches walkOf :=
  ⟨fun hl hn => by rw [walkOf_lookup hl]; exact walked_of_child (lookup_mem hl) hn⟩

theorem wellTyped_slotsIn (t : GT) (h : wellTyped t = true) : slotsIn scanOf t = true :=
  wellTyped_slotsIn_of scanOf scanOf_reaches t h
theorem wellTyped_slotsIn_walk (t : GT) (h : wellTyped t = true) : slotsIn walkOf t = true :=
  wellTyped_slotsIn_of walkOf walkOf_reaches t h

/-! ## the final statements on the real schema -/

/-- **AST equality is exactly structural equality**: on a well-typed tree, `__eq__` (with the extracted attribute
scan) holds exactly of equal trees -/
theorem ast_eq_iff (a b : GT) (h : wellTyped a = true) : eqG cmpOf a b = true ↔ a = b :=
  eqG_iff_eq cmpOf a b (wellTyped_covered a h)

theorem ast_eq_beq (a b : GT) (h : wellTyped a = true) : eqG cmpOf a b = GT.beq a b :=
  eqG_eq_beq cmpOf a b (wellTyped_covered a h)

/-- **parent links = tree edges**: `parent()` links every node below the root exactly once, to its parent -/
theorem ast_links (t : GT) (h : wellTyped t = true) : links scanOf [] t = allEdges [] t :=
  links_eq_allEdges scanOf [] t (wellTyped_slotsIn t h)

theorem ast_links_proper_tree (t : GT) (h : wellTyped t = true) :
    links scanOf [] t = allEdges [] t ∧ (childPaths (links scanOf [] t)).Nodup ∧
      ∀ e ∈ links scanOf [] t, ∃ ij, e.1 = e.2 ++ [ij] :=
  links_proper_tree scanOf [] t (wellTyped_slotsIn t h)

/-- **the generic walker visits every node below the root exactly once** (the same theorem read with the
walker's slot table) -/
theorem ast_walk (t : GT) (h : wellTyped t = true) :
    links walkOf [] t = allEdges [] t ∧ (childPaths (links walkOf [] t)).Nodup :=
  let r := links_proper_tree walkOf [] t (wellTyped_slotsIn_walk t h)
  ⟨r.1, r.2.1⟩

/-! Non-vacuity: the example trees of `Theory/Tree.lean` are well-typed against the real schema, so with the real
attribute scan they are (correctly) told apart, unlike with the deficient scan of `eqG_not_structural`. -/
theorem wellTyped_examples : wellTyped exA = true ∧ wellTyped exB = true ∧ eqG cmpOf exA exB = false ∧
    links scanOf [] exB = [([(0, 0)], []), ([(1, 0)], [])] := by decide +kernel

end Tumfl.Inst
