import Tumfl.Props.C16
#print axioms Tumfl.Props.C16_positions
#print axioms Tumfl.Props.C16_reference_position
#print axioms Tumfl.Props.C16_eof
#print axioms Tumfl.Props.C16_advance
