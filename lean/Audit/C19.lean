import Tumfl.Props.C19
#print axioms Tumfl.Props.C19_ok
#print axioms Tumfl.Props.C19_chunk
#print axioms Tumfl.Props.C19_rejected
#print axioms Tumfl.Props.C19_lexer_monotone
#print axioms Tumfl.Props.C09_no_index_error
