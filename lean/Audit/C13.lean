import Tumfl.Props.C13Text
import Tumfl.Props.C13
import Tumfl.Props.C08
import Tumfl.Props.C13Source
#print axioms Tumfl.Props.C13_text
#print axioms Tumfl.Props.C13_text_off
#print axioms Tumfl.Props.C13_parsed
#print axioms Tumfl.Props.C13_emit_on
#print axioms Tumfl.Props.C13_emit_off
#print axioms Tumfl.Props.C13_placement
#print axioms Tumfl.Props.C08_comment_wf
#print axioms Tumfl.Props.C08_comment_text
#print axioms Tumfl.Props.C13_source
#print axioms Tumfl.Props.C13_source_cur
#print axioms Tumfl.Props.C13_source_list
#print axioms Tumfl.Props.C13_source_text
#print axioms Tumfl.Props.C13_source_examples
#print axioms Tumfl.Props.C13_local_function_order
