import Tumfl.Props.C13
#print axioms Tumfl.Props.C13_parsed
#print axioms Tumfl.Props.C13_emit_on
#print axioms Tumfl.Props.C13_emit_off
#print axioms Tumfl.Props.C13_placement
