import Tumfl.Props.C11
#print axioms Tumfl.Props.C11_roundtrip
#print axioms Tumfl.Inst.brackets_sound_all
