import Tumfl.Props.C05
import Tumfl.Props.C20
import Tumfl.Props.Lex
#print axioms Tumfl.Props.C05_model_reads
#print axioms Tumfl.Props.C05_reference_reads
#print axioms Tumfl.Props.C05_same_value
#print axioms Tumfl.Props.C05_rejects_cleanly
#print axioms Tumfl.Props.C05_terminates
#print axioms Tumfl.Inst.escapeCodes_facts
#print axioms Tumfl.Inst.escChar_in_table
#print axioms Tumfl.Props.C05_long_brackets
#print axioms Tumfl.Props.C05_comments
#print axioms Tumfl.Props.Lex_sound
#print axioms Tumfl.Props.Lex_complete
#print axioms Tumfl.Props.Lex_cr_counterexample
#print axioms Tumfl.Props.Lex_byte_counterexample
