import Tumfl.Props.C05
import Tumfl.Props.C20
#print axioms Tumfl.Props.C05_model_reads
#print axioms Tumfl.Props.C05_reference_reads
#print axioms Tumfl.Props.C05_same_value
#print axioms Tumfl.Props.C05_rejects_cleanly
#print axioms Tumfl.Props.C05_terminates
#print axioms Tumfl.Inst.escapeCodes_facts
#print axioms Tumfl.Inst.escChar_in_table
#print axioms Tumfl.Props.C05_long_brackets
#print axioms Tumfl.Props.C05_comments
