import Tumfl.Props.C11
#print axioms Tumfl.Props.C11_roundtrip
