import Tumfl.Props.C06
import Tumfl.Props.Final
#print axioms Tumfl.Props.C06_quoted
#print axioms Tumfl.Props.C06_long
#print axioms Tumfl.Props.C06_forms
#print axioms Tumfl.Props.C06_wrapped
#print axioms Tumfl.Props.C08_format_tree
#print axioms Tumfl.Inst.escTable_ok
