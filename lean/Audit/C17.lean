import Tumfl.Props.C17
import Tumfl.Props.C17Replace
#print axioms Tumfl.Props.C17_links
#print axioms Tumfl.Props.C17_walk
#print axioms Tumfl.Props.C17_replace
#print axioms Tumfl.Props.C17_replace_exact
#print axioms Tumfl.Props.C17_replace_elsewhere
#print axioms Tumfl.Props.C17_replace_ancestors
#print axioms Tumfl.Props.C17_after_edits
#print axioms Tumfl.Props.C17_after_edits_exact
#print axioms Tumfl.Inst.schema_replace
#print axioms Tumfl.Inst.schema_links
#print axioms Tumfl.Inst.schema_walk
#print axioms Tumfl.Inst.schema_exercised
#print axioms Tumfl.Inst.schema_no_mixed
