import Tumfl.Props.C17
#print axioms Tumfl.Props.C17_links
#print axioms Tumfl.Props.C17_walk
#print axioms Tumfl.Props.C17_replace
#print axioms Tumfl.Inst.schema_replace
#print axioms Tumfl.Inst.schema_links
#print axioms Tumfl.Inst.schema_walk
#print axioms Tumfl.Inst.schema_exercised
#print axioms Tumfl.Inst.schema_no_mixed
