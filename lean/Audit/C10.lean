import Tumfl.Props.C03
#print axioms Tumfl.Props.C03_ladder_is_climb
#print axioms Tumfl.Inst.model_ladder_ok
