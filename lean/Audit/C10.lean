import Tumfl.Props.C03
import Tumfl.Props.Lex
import Tumfl.Props.Parse
#print axioms Tumfl.Props.C03_ladder_is_climb
#print axioms Tumfl.Inst.model_ladder_ok
#print axioms Tumfl.Props.Lex_sound
#print axioms Tumfl.Props.C10_parse_sound
#print axioms Tumfl.Props.C03_accept_iff
#print axioms Tumfl.Props.Accepts_unique
#print axioms Tumfl.Props.C10_needs_noCR
#print axioms Tumfl.Props.Parse_example_rejects
