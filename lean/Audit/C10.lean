import Tumfl.Props.C03
import Tumfl.Props.Lex
#print axioms Tumfl.Props.C03_ladder_is_climb
#print axioms Tumfl.Inst.model_ladder_ok
#print axioms Tumfl.Props.Lex_sound
