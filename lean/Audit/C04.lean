import Tumfl.Props.C04
#print axioms Tumfl.Props.C04_lookup
#print axioms Tumfl.Props.C04_lookup_none
#print axioms Tumfl.Props.C04_no_require
#print axioms Tumfl.Props.C12_untouched
#print axioms Tumfl.Props.C12_errors
