import Tumfl.Props.C04
import Tumfl.Props.Final
import Tumfl.Props.C04Faithful
#print axioms Tumfl.Props.C04_lookup
#print axioms Tumfl.Props.C04_lookup_none
#print axioms Tumfl.Props.C04_no_require
#print axioms Tumfl.Props.C12_untouched
#print axioms Tumfl.Props.C12_errors
#print axioms Tumfl.Props.C04_terminates
#print axioms Tumfl.Props.C04_outcome_unique
#print axioms Tumfl.Props.C04_formats_valid
#print axioms Tumfl.Props.C04_formats_valid_final
#print axioms Tumfl.Props.C04_expr_cycle_diverges
#print axioms Tumfl.Props.C04_faithful
#print axioms Tumfl.Props.C04_faithful_dedup
#print axioms Tumfl.Props.C04_spec_deterministic
#print axioms Tumfl.Props.C04_faithful_unique
#print axioms Tumfl.Props.C04_spec_forget
#print axioms Tumfl.Props.C04_dedup
#print axioms Tumfl.Props.C04_faithful_example
#print axioms Tumfl.Props.C04_spec_strict
#print axioms Tumfl.Props.C12_nothing_left
