import Tumfl.Props.C03
import Tumfl.Props.C11
import Tumfl.Props.Lex
import Tumfl.Props.Parse
#print axioms Tumfl.Props.C03_ladder_is_climb
#print axioms Tumfl.Props.C03_parseExp
#print axioms Tumfl.Inst.model_ladder_ok
#print axioms Tumfl.Theory.climb_complete_top
#print axioms Tumfl.Props.Lex_complete
#print axioms Tumfl.Props.C03_parse_complete
#print axioms Tumfl.Props.C03_accept_iff
#print axioms Tumfl.Props.C10_parse_sound
#print axioms Tumfl.Props.Accepts_unique
#print axioms Tumfl.Props.C03_needs_inScope
#print axioms Tumfl.Props.Parse_example_sound
