import Tumfl.Props.C03
import Tumfl.Props.C11
import Tumfl.Props.Lex
#print axioms Tumfl.Props.C03_ladder_is_climb
#print axioms Tumfl.Props.C03_parseExp
#print axioms Tumfl.Inst.model_ladder_ok
#print axioms Tumfl.Theory.climb_complete_top
#print axioms Tumfl.Props.Lex_complete
