import Tumfl.Props.C11
#print axioms Tumfl.Props.C11_roundtrip
#print axioms Tumfl.Props.C11_precOK
#print axioms Tumfl.Props.C11_emit_is_par
#print axioms Tumfl.Props.C11_emit_roundtrip
#print axioms Tumfl.Props.C11_minified
#print axioms Tumfl.Inst.brackets_sound_all
