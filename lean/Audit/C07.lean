import Tumfl.Props.C07
#print axioms Tumfl.Props.C07_partial
#print axioms Tumfl.Props.C07_canonical
