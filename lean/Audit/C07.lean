import Tumfl.Props.C07
import Tumfl.Props.Lex
#print axioms Tumfl.Props.C07_partial
#print axioms Tumfl.Props.C07_canonical
#print axioms Tumfl.Props.Lex_complete
#print axioms Tumfl.Props.Lex_sound
