import Tumfl.Props.C09
import Tumfl.Props.C09Pos
import Tumfl.Props.C19
import Tumfl.Props.C05
#print axioms Tumfl.Props.C09_lexer_total
#print axioms Tumfl.Props.C09_lexer_terminates
#print axioms Tumfl.Props.C09_lexer_progress
#print axioms Tumfl.Props.C09_parser_errors
#print axioms Tumfl.Props.C09_no_assertion
#print axioms Tumfl.Props.C09_parse_total
#print axioms Tumfl.Props.C09_parser_terminates
#print axioms Tumfl.Props.C09_fuel_irrelevant
#print axioms Tumfl.Props.C09_parse_total_final
#print axioms Tumfl.Props.C09_error_positions
#print axioms Tumfl.Props.C09_lexer_error_position
#print axioms Tumfl.Props.C09_no_index_error
#print axioms Tumfl.Props.C05_rejects_cleanly
#print axioms Tumfl.Props.C05_terminates
