import Tumfl.Props.C19
import Tumfl.Props.C05
#print axioms Tumfl.Props.C09_no_index_error
#print axioms Tumfl.Props.C05_rejects_cleanly
#print axioms Tumfl.Props.C05_terminates
