import Tumfl.Props.C04
import Tumfl.Props.C04Faithful
#print axioms Tumfl.Props.C12_wrong_args_stmt
#print axioms Tumfl.Props.C12_wrong_args_expr
#print axioms Tumfl.Props.C12_missing_stmt
#print axioms Tumfl.Props.C12_missing_expr
#print axioms Tumfl.Props.C12_untouched
#print axioms Tumfl.Props.C12_errors
#print axioms Tumfl.Props.C04_lookup_none
#print axioms Tumfl.Props.C12_stmt_cycles_terminate
#print axioms Tumfl.Props.C12_cycle_example
#print axioms Tumfl.Props.C04_terminates
#print axioms Tumfl.Props.C12_nothing_left
#print axioms Tumfl.Props.C12_ok_no_bad_require
#print axioms Tumfl.Props.C04_faithful
#print axioms Tumfl.Props.C12_error_designates
#print axioms Tumfl.Props.C12_tree_is_files
#print axioms Tumfl.Props.C12_complete
#print axioms Tumfl.Props.C12_offending_never_ok
#print axioms Tumfl.Props.C12_dependency_error_stable
#print axioms Tumfl.Props.C12_complete_parses
#print axioms Tumfl.Props.C12_complete_example
