import Tumfl.Props.C20
import Tumfl.Props.C16
import Tumfl.Props.Lex
#print axioms Tumfl.Props.C20_delivery
#print axioms Tumfl.Props.C20_all_comments
#print axioms Tumfl.Props.C05_comments
#print axioms Tumfl.Props.C05_long_brackets
#print axioms Tumfl.Props.C16_positions
#print axioms Tumfl.Props.Lex_sound
#print axioms Tumfl.Props.Lex_complete
