import Tumfl.Props.C16
#print axioms Tumfl.Props.C16_positions
