import Tumfl.Props.C20
import Tumfl.Props.C16
#print axioms Tumfl.Props.C20_delivery
#print axioms Tumfl.Props.C20_all_comments
#print axioms Tumfl.Props.C05_comments
#print axioms Tumfl.Props.C05_long_brackets
#print axioms Tumfl.Props.C16_positions
