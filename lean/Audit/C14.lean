import Tumfl.Props.C14
#print axioms Tumfl.Props.C14_noninterference
#print axioms Tumfl.Inst.no_shared_writes
#print axioms Tumfl.Inst.format_leaves_arguments
