import Tumfl.Props.C17
#print axioms Tumfl.Props.C18_eq
#print axioms Tumfl.Inst.schema_eq
#print axioms Tumfl.Inst.schema_exercised
#print axioms Tumfl.Inst.schema_no_mixed
