import Tumfl.Props.Final
import Tumfl.Props.Format
import Tumfl.Props.Same
import Tumfl.Props.Parse
import Tumfl.Props.Print
import Tumfl.Props.C08
import Tumfl.Props.C11
import Tumfl.Props.C06
import Tumfl.Props.C07
import Tumfl.Props.C13
#print axioms Tumfl.Props.C08_remove_separators
#print axioms Tumfl.Props.C08_add_spacing
#print axioms Tumfl.Props.C08_remove_orphaned
#print axioms Tumfl.Props.C08_resolve_tokens
#print axioms Tumfl.Props.C08_join
#print axioms Tumfl.Props.C08_indent_brackets
#print axioms Tumfl.Props.C08_string_wrap
#print axioms Tumfl.Props.C08_wrap_progress
#print axioms Tumfl.Props.C02_boundary
#print axioms Tumfl.Props.C08_comment_wf
#print axioms Tumfl.Props.C08_comment_text
#print axioms Tumfl.Props.C01_format_parse
#print axioms Tumfl.Props.C08_format_total
#print axioms Tumfl.Props.C08_format_total_parsed
#print axioms Tumfl.Props.C08_format_tree
#print axioms Tumfl.Props.C01_default_style
#print axioms Tumfl.Props.C02_minified_style
#print axioms Tumfl.Inst.defaultStyle_repr_ok
#print axioms Tumfl.Inst.minifiedStyle_repr_ok
#print axioms Tumfl.Props.C01_same_program
#print axioms Tumfl.Props.C02_same_program_final
#print axioms Tumfl.Props.C01_same_program_emit
#print axioms Tumfl.Props.EmitI_eq_emit_parsed
#print axioms Tumfl.Props.C02_same_program
#print axioms Tumfl.Props.C02_same_program_nocomments
#print axioms Tumfl.Props.Format_lex
#print axioms Tumfl.Props.Format_lex_exact
#print axioms Tumfl.Props.Format_comments
#print axioms Tumfl.Props.Parse_numsCanon
#print axioms Tumfl.Props.Format_cex_semicolon
#print axioms Tumfl.Props.Format_cex_trailing_comma
#print axioms Tumfl.Props.Same_program
#print axioms Tumfl.Props.Same_tokens
#print axioms Tumfl.Props.Same_normS_eq
#print axioms Tumfl.Props.Same_normS_strength
#print axioms Tumfl.Props.Parse_printable
#print axioms Tumfl.Props.C10_parse_sound
#print axioms Tumfl.Props.C03_parse_complete
#print axioms Tumfl.Props.Print_sim
#print axioms Tumfl.Props.Print_sim_parseToks
#print axioms Tumfl.Props.Print_readings
#print axioms Tumfl.Props.C11_roundtrip
#print axioms Tumfl.Props.C11_emit_is_par
#print axioms Tumfl.Props.C11_emit_roundtrip
#print axioms Tumfl.Props.C11_minified
#print axioms Tumfl.Inst.brackets_sound_all
#print axioms Tumfl.Props.C06_quoted
#print axioms Tumfl.Props.C06_long
#print axioms Tumfl.Props.C06_forms
#print axioms Tumfl.Props.C06_wrapped
#print axioms Tumfl.Props.C07_partial
#print axioms Tumfl.Props.C13_emit_on
