import Tumfl.Spec.Lex
import Tumfl.Spec.Ops
import Tumfl.Spec.Climb
import Tumfl.Spec.Parse
import Tumfl.Spec.Show
