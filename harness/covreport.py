"""Union of the statement coverage recorded in evidence/*.json: which statements of /repo/tumfl no check executes (run after ./runall.sh)."""
import glob
import json
from pathlib import Path

VERIF = Path(__file__).resolve().parent.parent
missed: dict[str, set[int]] = {}
stmts: dict[str, int] = {}
seen_files: set[str] = set()
n = 0
for f in sorted(glob.glob(str(VERIF / "evidence" / "C*.json"))):
    cc = json.loads(Path(f).read_text())["coverage"].get("code_coverage", {})
    if not cc.get("measured"):
        continue
    n += 1
    for rel, v in cc["files"].items():
        stmts[rel] = v["statements"]
        if len(v["missed_lines"]) < v["missed"]:
            # truncated list: cannot intersect exactly; keep what is listed (conservative: may report fewer never-executed lines)
            pass
        cur = set(v["missed_lines"]) if v["missed"] == len(v["missed_lines"]) else None
        if rel not in missed:
            missed[rel] = cur if cur is not None else set(v["missed_lines"])
        elif cur is not None:
            missed[rel] &= cur
        seen_files.add(rel)
    for rel in list(missed):
        if rel not in cc["files"]:
            missed[rel] = set()      # fully executed by this check
report = {"checks_with_measurement": n, "never_executed": {k: sorted(v) for k, v in sorted(missed.items()) if v},
          "statements_in_listed_files": {k: stmts[k] for k in sorted(missed) if missed[k]}}
(VERIF / "coverage_union.json").write_text(json.dumps(report, indent=1))
print(json.dumps(report, indent=1))
