"""Write /verif/MANIFEST.json from the registry in props.py (run by hand after changing the registry)."""
import json
import sys
from pathlib import Path

sys.path.insert(0, str(Path(__file__).resolve().parent))
import props  # noqa: E402

VERIF = Path(__file__).resolve().parent.parent
ALL = [f"C{i:02d}" for i in range(1, 21)]
titles = {json.loads(l)["id"]: json.loads(l)["title"] for l in (VERIF / "properties.jsonl").read_text().splitlines() if l.strip()}

checks = []
for pid in ALL:
    if pid not in props.REGISTRY:
        continue
    spec = props.REGISTRY[pid]
    checks.append({
        "property_id": pid,
        "quick_cmd": f"./check {pid} --tier quick",
        "thorough_cmd": f"./check {pid} --tier thorough",
        "evidence_file": f"evidence/{pid}.json",
        "replay_cmd_template": f"./check {pid} --replay {{path}}",
        "engine": "lean4-model+correspondence",
        "level_claimed": {
            "category": "proof",
            "text": spec.get("level_text", "Lean 4 theorems about a model of the code (obligations listed in the evidence), tied to /repo by "
                                           "regenerated decision tables (T1) and correspondence/oracle streams (T2) on every run"),
            "design_ref": f"DESIGN.md section 6 ({pid})",
        },
        "level_note": spec.get("level_note", "; ".join(spec.get("partial_hypotheses", [])) or "see DESIGN.md section 9 (trusted base)"),
        "technique": spec.get("technique", "machine-checked proof in Lean 4 + regenerated tables + differential correspondence against a Lean reference of Lua 5.4"),
    })
manifest = {
    "version": 1,
    "setup_cmd": "./setup.sh",
    "hooks": {
        "guard": "TUMFL_VERIF",
        "enable": "no source hooks: the harness imports /repo's working tree in-process (PYTHONPATH) and reaches private functions by introspection; TUMFL_VERIF=1 is set by the harness",
        "baseline_off_cmd": "cd /repo && /venv/bin/python -m pytest -ra -q -p no:cacheprovider --timeout=900 --continue-on-collection-errors",
        "source_commits": [],
        "add_only": True,
    },
    "engines": [{"name": "lean4-model+correspondence", "path": "lean/", "serves_properties": [c["property_id"] for c in checks],
                 "kind_free_text": "Lean 4.33 project (Spec = reference Lua 5.4, Model = tumfl, Theory/Inst/Props = theorems), compiled line-protocol driver, Python harness"}],
    "checks": checks,
    "not_applicable": [{"property_id": p, "reason": props.NOT_YET.get(p, "check not built yet (work in progress in this round)")} for p in ALL if p not in props.REGISTRY],
    "notes": "All checks are `./check Cxx`; see DESIGN.md. Known findings are listed in known_findings.json.",
}
(VERIF / "MANIFEST.json").write_text(json.dumps(manifest, indent=1) + "\n")
print("checks:", [c["property_id"] for c in checks], "n/a:", [x["property_id"] for x in manifest["not_applicable"]])
