"""Write /verif/MANIFEST.json from the registry in props.py (run by hand after changing the registry)."""
import json
import sys
from pathlib import Path

sys.path.insert(0, str(Path(__file__).resolve().parent))
import props  # noqa: E402

VERIF = Path(__file__).resolve().parent.parent
ALL = [f"C{i:02d}" for i in range(1, 21)]
titles = {json.loads(l)["id"]: json.loads(l)["title"] for l in (VERIF / "properties.jsonl").read_text().splitlines() if l.strip()}

HEAD = {
    "C01": "C01_default_style / C01_same_program: format(parse(src)) is a valid chunk with the source's reference tree up to normS, for every documented style",
    "C02": "C02_minified_style (same statement for MinifiedStyle, no comment hypothesis) + C02_boundary (no fusion where sep_required says none) + Format_lex_exact",
    "C03": "C03_parse_complete / C03_accept_iff: every valid chunk (in-scope strings) is accepted with the reference tree modulo parentheses; C03_ladder_is_climb",
    "C04": "C04_faithful / C04_faithful_dedup / C04_faithful_unique (refinement of the resolver to a declarative, functional inlining specification), C04_lookup, C04_no_require, C04_terminates (explicit depth bound for acyclic expression-level requires), C04_formats_valid_final",
    "C05": "Lex_sound / Lex_complete (whole-lexer agreement with the reference lexer), C05_model_reads, C05_long_brackets, C05_comments",
    "C06": "C06_quoted, C06_long, C06_forms, C06_wrapped: every written form, including the \\z wrapping, is read back to the value by the reference readers",
    "C07": "C07_partial (kind and exact value kept except K2/K3), C07_canonical, Lex_sound/complete for numerals in context",
    "C08": "C01_same_program for every DocStyle, C08_* (each layout pass), C08_comment_wf, C06_wrapped, C08_wrap_progress, Format_lex (trailing comma only before `}`)",
    "C09": "C09_parse_total_final, C09_parser_terminates, C09_lexer_total/terminates, C09_error_positions (exhaustive: tree, LexerError or ParserError with a position inside the text)",
    "C10": "C10_parse_sound: a successful parse of a CR-free text implies the reference lexer and parser accept the whole text as one chunk with the same tree modulo parentheses",
    "C11": "C11_roundtrip, C11_precOK, brackets_sound_all (decide over the extracted 9568-entry table), Print_sim for general atoms",
    "C12": "C12_complete (if resolution succeeds no file of the dependency tree contains an uninlinable require call, whatever the position; deduplication and cycles included), C12_error_designates (every InvalidDependencyError carries the token of a really uninlinable require call in a file of the dependency tree), C12_nothing_left (no call of the bare name require survives a successful resolution), C12_wrong_args_*, C12_missing_*, C12_untouched, C12_errors, C12_stmt_cycles_terminate",
    "C13": "C13_parsed, C13_emit_on/off, C13_placement, C08_comment_wf, Format_comments (comments found in the final text are the emitted comment pieces, in order)",
    "C14": "C14_noninterference (any interleaving of any histories) + no_shared_writes / format_leaves_arguments decided on the re-extracted static scan",
    "C15": "C15_idempotent: minify(parse(minify(parse(src)))) = minify(parse(src)) byte for byte, for MinifiedStyle as extracted; C15_idempotent_general",
    "C16": "C16_positions, C16_reference_position, C16_eof, C16_advance, C09_error_positions",
    "C17": "C17_links, C17_walk (generic tree model) + schema_links/walk/replace/exercised decided on the re-extracted class schema, C17_replace_exact/_elsewhere/_ancestors and C17_after_edits (replacement on the generic tree model: exactly the given occurrence; a proper tree again after any sequence of replacements)",
    "C18": "C18_eq (== iff structural identity on the generic model) + schema_eq decided on the re-extracted class schema",
    "C19": "C19_ok (chain empty on success), C19_rejected (hint positions non-decreasing, none after the offending token), C19_lexer_monotone",
    "C20": "C20_delivery, C20_all_comments, C05_comments, Lex_sound / Lex_complete (no comment text becomes a token, no token is swallowed)",
}

checks = []
for pid in ALL:
    if pid not in props.REGISTRY:
        continue
    spec = props.REGISTRY[pid]
    checks.append({
        "property_id": pid,
        "quick_cmd": f"./check {pid} --tier quick",
        "thorough_cmd": f"./check {pid} --tier thorough",
        "evidence_file": f"evidence/{pid}.json",
        "replay_cmd_template": f"./check {pid} --replay {{path}}",
        "engine": "lean4-model+correspondence",
        "level_claimed": {
            "category": spec.get("level", "proof"),
            "text": spec.get("level_text", "Lean 4 theorems about a model of the code (obligations listed in the evidence), tied to /repo by "
                                           "regenerated decision tables (T1) and correspondence/oracle streams (T2) on every run"),
            "design_ref": f"DESIGN.md section 6 ({pid})",
        },
        "level_note": spec.get("level_note", "; ".join(spec.get("partial_hypotheses", [])) or "see DESIGN.md section 9 (trusted base)"),
        "technique": "machine-checked proof in Lean 4 (" + HEAD[pid] + ") about hand-written models tied to /repo on every run by regenerated tables (T1) and "
                     "differential correspondence (T2); the reference-parser / reference-lexer oracle streams search for a failing input when a proof or tie breaks",
    })
manifest = {
    "version": 1,
    "setup_cmd": "./setup.sh",
    "hooks": {
        "guard": "TUMFL_VERIF",
        "enable": "no source hooks: the harness imports /repo's working tree in-process (PYTHONPATH) and reaches private functions by introspection; TUMFL_VERIF=1 is set by the harness",
        "baseline_off_cmd": "cd /repo && /venv/bin/python -m pytest -ra -q -p no:cacheprovider --timeout=900 --continue-on-collection-errors",
        "source_commits": [],
        "add_only": True,
    },
    "engines": [{"name": "lean4-model+correspondence", "path": "lean/", "serves_properties": [c["property_id"] for c in checks],
                 "kind_free_text": "Lean 4.33 project (Spec = reference Lua 5.4, Model = tumfl, Theory/Inst/Props = theorems), compiled line-protocol driver, Python harness"}],
    "checks": checks,
    "not_applicable": [{"property_id": p, "reason": props.NOT_YET.get(p, "check not built yet (work in progress in this round)")} for p in ALL if p not in props.REGISTRY],
    "notes": "All checks are `./check Cxx`; see DESIGN.md. Known findings are listed in known_findings.json.",
}
(VERIF / "MANIFEST.json").write_text(json.dumps(manifest, indent=1) + "\n")
print("checks:", [c["property_id"] for c in checks], "n/a:", [x["property_id"] for x in manifest["not_applicable"]])
