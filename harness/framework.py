"""Check framework: tiers, PRNG streams, case evaluation, known findings, evidence, replays."""
from __future__ import annotations

import fcntl
import hashlib
import json
import os
import random
import re
import subprocess
import sys
import time
import traceback
from dataclasses import dataclass, field
from pathlib import Path
from typing import Any, Callable, Iterable

from common import EVIDENCE, LEAN, REPLAYS, VERIF, Timer, write_json

ALLOWED_AXIOMS = {"propext", "Classical.choice", "Quot.sound"}
KNOWN_FILE = VERIF / "known_findings.json"
_KNOWN_RUNTIME: dict = {}   # (property, finding id) -> what the witness run observed in this run


_T0 = time.time()


class EnoughEvidence(BaseException):
    """raised to end a run early when the code under test has been seen to hang many times: the violations found so far are reported"""


class InfraError(Exception):
    """Something in the machinery itself failed (exit 2, never a violation)."""


def rng_for(seed: int, stream: str) -> random.Random:
    h = hashlib.sha256(f"{seed}:{stream}".encode()).digest()
    return random.Random(int.from_bytes(h[:8], "big"))


@dataclass
class Failure:
    stream: str
    what: str            # short description of what failed
    case: Any            # the concrete input (JSON-able)
    detail: str = ""


@dataclass
class Stream:
    """One stream of cases of a property check."""
    name: str
    evaluations: int = 0
    nontrivial: set = field(default_factory=set)
    samples: list = field(default_factory=list)
    failures: list[Failure] = field(default_factory=list)
    notes: dict = field(default_factory=dict)
    exhaustive: bool = False

    def record(self, case: Any, key: str | None = None, nontrivial: bool = True) -> None:
        self.evaluations += 1
        if nontrivial:
            k = key if key is not None else json.dumps(case, sort_keys=True, default=str)
            self.nontrivial.add(hashlib.md5(k.encode("utf-8", "surrogatepass")).hexdigest())
        if len(self.samples) < 3:
            self.samples.append(case)

    def fail(self, what: str, case: Any, detail: str = "") -> None:
        if len(self.failures) < 50:
            self.failures.append(Failure(self.name, what, case, detail[:2000]))
        # a change that makes (nearly) every case fail can also make every case slow (state that grows from call to call): the run then ends with
        # what it has instead of running into the time limit - only ever reached when violations have been recorded
        self.nfail = getattr(self, "nfail", 0) + 1
        if self.nfail >= 400 or (self.nfail >= 20 and time.time() - _T0 > 240):
            raise EnoughEvidence(f"{self.nfail} failing cases in stream '{self.name}'; ending the run with the violations recorded so far")


@dataclass
class LeanStatus:
    built: bool
    obligations: list[str]
    discharged: list[str]
    broken: list[str]
    axioms: dict[str, list[str]]
    log: str = ""
    wall_s: float = 0.0


@dataclass
class Ctx:
    prop: str
    tier: str
    seed: int
    streams: list[Stream] = field(default_factory=list)
    lean: LeanStatus | None = None
    t: Timer = field(default_factory=Timer)
    ties: list[str] = field(default_factory=list)          # names of T1/T2 ties that broke
    tie_details: list[dict] = field(default_factory=list)

    @property
    def quick(self) -> bool:
        return self.tier == "quick"

    def n(self, quick: int, thorough: int) -> int:
        return quick if self.quick else thorough

    def stream(self, name: str) -> Stream:
        s = Stream(name)
        self.streams.append(s)
        return s

    def rng(self, stream: str) -> random.Random:
        return rng_for(self.seed, f"{self.prop}:{stream}")

    def tie_broken(self, name: str, detail: dict) -> None:
        self.ties.append(name)
        if len(self.tie_details) < 20:
            self.tie_details.append({"tie": name, **detail})


# --------------------------------------------------------------------------- known findings
def load_known() -> dict:
    if KNOWN_FILE.exists():
        return json.loads(KNOWN_FILE.read_text())
    return {"findings": [], "fixed": []}


# --------------------------------------------------------------------------- Lean build and audit
def _lock():
    VERIF.joinpath(".lock").touch()
    f = open(VERIF / ".lock", "r+")
    fcntl.flock(f, fcntl.LOCK_EX)
    return f


def lake(args: list[str], timeout: int = 3000) -> subprocess.CompletedProcess:
    env = dict(os.environ)
    return subprocess.run(["lake", *args], cwd=LEAN, capture_output=True, text=True, timeout=timeout, env=env)


FORBIDDEN = re.compile(r"\b(sorry|admit|native_decide|bv_decide|implemented_by|unsafe)\b|^\s*axiom\s|maxHeartbeats\s+0")


def source_scan() -> list[str]:
    """Forbidden constructs in the Lean sources, outside comments."""
    hits: list[str] = []
    for p in sorted(LEAN.rglob("*.lean")):
        if ".lake" in p.parts:
            continue
        text = p.read_text()
        # strip block comments (nesting-aware) and line comments
        out, depth, i = [], 0, 0
        while i < len(text):
            if text.startswith("/-", i):
                depth += 1
                i += 2
            elif text.startswith("-/", i) and depth:
                depth -= 1
                i += 2
            elif depth:
                if text[i] == "\n":
                    out.append("\n")
                i += 1
            else:
                out.append(text[i])
                i += 1
        for ln, line in enumerate("".join(out).split("\n"), 1):
            line = line.split("--", 1)[0]
            if FORBIDDEN.search(line):
                hits.append(f"{p.relative_to(LEAN)}:{ln}: {line.strip()[:120]}")
    return hits


def lean_check(prop: str, obligations: list[str], modules: list[str], thorough: bool) -> LeanStatus:
    """Regenerate nothing here (the caller did); build the property's modules and audit axioms."""
    t = Timer()
    lock = _lock()
    try:
        log = []
        # the driver first (Spec and Model executables only), then the property's modules
        r0 = lake(["build", "driver"])
        if r0.returncode != 0:
            log.append("driver build failed:\n" + r0.stdout[-4000:] + r0.stderr[-2000:])
        r = lake(["build", *modules])
        log.append(r.stdout[-6000:] + r.stderr[-3000:])
        built = r.returncode == 0 and r0.returncode == 0
        axioms: dict[str, list[str]] = {}
        discharged: list[str] = []
        broken: list[str] = []
        if built:
            audit = LEAN / "Audit" / f"{prop}.lean"
            body = "".join(f"import {m}\n" for m in modules) + "".join(f"#print axioms {o}\n" for o in obligations)
            audit.write_text(body)
            r2 = lake(["env", "lean", str(audit)])
            log.append(r2.stdout[-6000:] + r2.stderr[-3000:])
            out = r2.stdout
            for o in obligations:
                m = re.search(r"'" + re.escape(o) + r"' (depends on axioms: \[([^\]]*)\]|does not depend on any axioms)", out, re.S)
                if not m:
                    broken.append(o)
                    continue
                axs = [a.strip() for a in (m.group(2) or "").replace("\n", " ").split(",") if a.strip()]
                axioms[o] = axs
                if set(axs) <= ALLOWED_AXIOMS:
                    discharged.append(o)
                else:
                    broken.append(o)
            scan = source_scan()
            if scan:
                log.append("forbidden constructs: " + "; ".join(scan[:10]))
                broken.append("source-scan")
            if thorough and not broken:
                r3 = lake(["env", "leanchecker", *modules], timeout=3000)
                log.append("leanchecker rc=%d %s" % (r3.returncode, (r3.stdout + r3.stderr)[-1500:]))
                if r3.returncode != 0:
                    broken.append("leanchecker")
        else:
            # which obligations are in modules that failed?  ask lake per module
            for m in modules:
                rm = lake(["build", m])
                if rm.returncode != 0:
                    broken.append(m)
                    log.append(f"--- {m}\n" + rm.stdout[-3000:])
            if not broken:
                broken.append("driver")
        return LeanStatus(built, obligations, discharged, broken, axioms, "\n".join(log), t.s())
    finally:
        fcntl.flock(lock, fcntl.LOCK_UN)
        lock.close()


# --------------------------------------------------------------------------- finishing a run
def finish(ctx: Ctx, spec: dict) -> int:
    """Write evidence, print KNOWN-FINDING / VIOLATION lines, return the exit code."""
    known = load_known()
    my_known = [k for k in known.get("findings", []) if k["property"] == ctx.prop]
    failures: list[Failure] = [f for s in ctx.streams for f in s.failures]
    unlisted: list[Failure] = []
    listed_hits: dict[str, int] = {}
    for f in failures:
        kid = spec.get("classify", lambda f: None)(f)
        if kid and any(k["id"] == kid for k in my_known):
            listed_hits[kid] = listed_hits.get(kid, 0) + 1
        else:
            unlisted.append(f)
    lean = ctx.lean
    proof_broken = bool(lean and lean.broken) or bool(ctx.ties)
    exit_code = 0
    lines: list[str] = []
    for k in my_known:
        seen = _KNOWN_RUNTIME.get((ctx.prop, k["id"]), "witnesses not run")
        if listed_hits.get(k["id"]):
            lines.append(f"KNOWN-FINDING: property={ctx.prop} {k['id']}: {k['what']} [{seen}]")
        else:
            lines.append(f"note: listed finding {k['id']} of {ctx.prop} did not fail in this run [{seen}]")
    replay_path = None
    if unlisted:
        f = unlisted[0]
        REPLAYS.mkdir(exist_ok=True)
        replay_path = REPLAYS / f"{ctx.prop}-{ctx.tier}-{ctx.seed}-{int(time.time())}.json"
        write_json(replay_path, {"property": ctx.prop, "stream": f.stream, "what": f.what, "case": f.case,
                                 "detail": f.detail, "seed": ctx.seed, "tier": ctx.tier,
                                 "broken_obligations": lean.broken if lean else [], "broken_ties": ctx.ties,
                                 "more": [{"stream": g.stream, "what": g.what, "case": g.case} for g in unlisted[1:10]]})
        lines.append(f"VIOLATION property={ctx.prop} replay={replay_path}")
        exit_code = 1
    elif proof_broken:
        REPLAYS.mkdir(exist_ok=True)
        replay_path = REPLAYS / f"{ctx.prop}-{ctx.tier}-{ctx.seed}-{int(time.time())}-unproved.json"
        write_json(replay_path, {"property": ctx.prop, "no_failing_input_found": True,
                                 "broken_obligations": lean.broken if lean else [],
                                 "broken_ties": ctx.ties, "tie_details": ctx.tie_details,
                                 "lean_log": (lean.log[-4000:] if lean else ""), "seed": ctx.seed, "tier": ctx.tier,
                                 "searched": {s.name: s.evaluations for s in ctx.streams}})
        lines.append(f"VIOLATION property={ctx.prop} replay={replay_path} no-failing-input-found")
        exit_code = 1

    evaluations = sum(s.evaluations for s in ctx.streams)
    distinct = sum(len(s.nontrivial) for s in ctx.streams)
    obligations = (lean.obligations if lean else []) + spec.get("tie_names", [])
    discharged = (len(lean.discharged) if lean else 0) + len([t for t in spec.get("tie_names", []) if t not in ctx.ties])
    cov = {
        "obligations": len(obligations),
        "discharged": discharged,
        "checker_cmd": f"cd lean && lake build driver {' '.join(spec.get('modules', []))} && lake env lean Audit/{ctx.prop}.lean"
                       + (" && lake env leanchecker " + " ".join(spec.get("modules", [])) if ctx.tier == "thorough" else ""),
        "trusted_base": spec.get("trusted_base", []),
        "obligation_names": obligations,
        "theorem_axioms": lean.axioms if lean else {},
        "undischarged": (lean.broken if lean else []) + ctx.ties,
        "partial_hypotheses": spec.get("partial_hypotheses", []),
        "evaluations": evaluations,
        "distinct_nontrivial": distinct,
        "rule": spec.get("rule", ""),
        "samples": [smp for s in ctx.streams for smp in s.samples[:2]][:8] or ["(no dynamic cases)"],
        "streams": {s.name: {"evaluations": s.evaluations, "distinct_nontrivial": len(s.nontrivial),
                             "failures": len(s.failures), "exhaustive": s.exhaustive, **s.notes} for s in ctx.streams},
        "exhaustive": all(s.exhaustive for s in ctx.streams) if ctx.streams else False,
        "known_findings_hit": listed_hits,
        "lean_build_s": lean.wall_s if lean else 0,
        "code_coverage": getattr(ctx, "code_coverage", {"measured": False}),
    }
    ev = {
        "property_id": ctx.prop,
        "tier": ctx.tier,
        "seed": ctx.seed,
        "level": spec.get("level", "proof"),
        "coverage": cov,
        "assumptions": spec.get("assumptions", []),
        "wall_s": ctx.t.s(),
        "violations": len(unlisted) + (1 if (proof_broken and not unlisted) else 0),
    }
    write_json(EVIDENCE / f"{ctx.prop}.json", ev)
    for l in lines:
        print(l)
    print(f"{ctx.prop} {ctx.tier} seed={ctx.seed}: {evaluations} cases, {distinct} distinct non-trivial, "
          f"{discharged}/{len(obligations)} obligations discharged, {len(unlisted)} violations, {ctx.t.s()}s")
    sys.stdout.flush()
    return exit_code
