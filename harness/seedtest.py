"""Confirm a seeded change and run the property's check against it.

usage: seedtest.py <dir with patch.diff demo.py meta.json> [extra property ids...]
Applies the patch to /repo (never committed), runs the test suite, the demonstration (must fail with the
patch and pass without), then `./check <prop>` for the property in meta.json and any extra ones; undoes the patch.
"""
import json
import subprocess
import sys
from pathlib import Path

import os
REPO = os.environ.get("SEED_REPO", "/repo")   # a scratch worktree of /repo may be used so that /repo itself stays untouched
VERIF = Path(__file__).resolve().parent.parent


def sh(cmd, **kw):
    return subprocess.run(cmd, shell=True, capture_output=True, text=True, **kw)


def main():
    d = Path(sys.argv[1])
    meta = json.loads((d / "meta.json").read_text())
    props = [meta["property"]] + sys.argv[2:]
    assert sh(f"git -C {REPO} status --short").stdout.strip() == "", "repo not clean"
    res = {"dir": str(d), "property": meta["property"]}
    res["demo_clean_rc"] = sh(f"cd {REPO} && PYTHONPATH={REPO} /venv/bin/python {d}/demo.py").returncode
    a = sh(f"git -C {REPO} apply {d}/patch.diff")
    if a.returncode != 0:
        print("PATCH DOES NOT APPLY", a.stderr)
        return 1
    try:
        t = sh(f"cd {REPO} && /venv/bin/python -m pytest -q -p no:cacheprovider 2>&1 | tail -1")
        res["tests"] = t.stdout.strip()
        res["demo_patched_rc"] = sh(f"cd {REPO} && PYTHONPATH={REPO} /venv/bin/python {d}/demo.py").returncode
        res["checks"] = {}
        for p in props:
            c = sh(f"cd {VERIF} && TUMFL_REPO={REPO} ./check {p}")
            viol = [l for l in c.stdout.split("\n") if l.startswith("VIOLATION")]
            res["checks"][p] = {"rc": c.returncode, "violation": viol[:1], "last": c.stdout.strip().split("\n")[-1][:200]}
            if viol:
                rp = viol[0].split("replay=")[1].split()[0]
                try:
                    rj = json.loads(Path(rp).read_text())
                    res["checks"][p]["what"] = rj.get("what") or ("no-failing-input: " + str(rj.get("broken_obligations")) + str(rj.get("broken_ties")))
                    res["checks"][p]["case"] = json.dumps(rj.get("case"))[:300]
                except Exception as e:  # noqa: BLE001
                    res["checks"][p]["what"] = f"(replay unreadable: {e})"
    finally:
        sh(f"git -C {REPO} checkout -- .")
    print(json.dumps(res, indent=1))
    return 0


if __name__ == "__main__":
    sys.exit(main())
