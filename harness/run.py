"""Entry point of every check:  run.py Cxx [--tier quick|thorough] [--replay file]"""
from __future__ import annotations

import argparse
import json
import os
import subprocess
import sys
import traceback
from pathlib import Path

sys.path.insert(0, str(Path(__file__).resolve().parent))

from common import DRIVER, LEAN, VERIF  # noqa: E402
import framework as fw  # noqa: E402


def regenerate(ctx: fw.Ctx) -> dict:
    """T1: run the extractors in a fresh interpreter against /repo's working tree."""
    r = subprocess.run([sys.executable, str(VERIF / "harness" / "extract.py")], capture_output=True, text=True,
                       timeout=600)
    if r.returncode != 0:
        ctx.tie_broken("T1:extract", {"stderr": r.stderr[-1500:], "stdout": r.stdout[-500:]})
        return {"problems": [{"extractor": "all", "what": "extract.py failed"}]}
    rep = json.loads(r.stdout.strip().split("\n")[-1])
    return rep


def start_code_coverage():
    """statement coverage of /repo/tumfl by everything this check executes (oracle streams and T2 streams): how much of the code the correspondence reaches"""
    if os.environ.get("VERIF_NO_COVERAGE"):
        return None
    try:
        os.environ.setdefault("COVERAGE_CORE", "sysmon")
        import coverage
        from common import REPO
        cov = coverage.Coverage(data_file=None, source=[str(REPO / "tumfl")], config_file=False)
        cov.start()
        return cov
    except Exception:  # noqa: BLE001
        return None


def stop_code_coverage(cov):
    if cov is None:
        return {"measured": False}
    try:
        cov.stop()
        from common import REPO
        out = {"measured": True, "files": {}}
        tot_s = tot_m = 0
        import ast as pyast

        def body_lines(path: str) -> set[int]:
            """lines of statements inside function bodies (module- and class-level lines run at import time, before the measurement starts)"""
            lines: set[int] = set()
            tree = pyast.parse(Path(path).read_text())
            for fn in pyast.walk(tree):
                if isinstance(fn, (pyast.FunctionDef, pyast.AsyncFunctionDef)):
                    for st in fn.body:
                        for n in pyast.walk(st):
                            if isinstance(n, pyast.stmt) and not isinstance(n, (pyast.FunctionDef, pyast.AsyncFunctionDef, pyast.ClassDef)):
                                lines.add(n.lineno)
            return lines

        for f in sorted(cov.get_data().measured_files()):
            _, stmts, _, missing, _ = cov.analysis2(f)
            rel = str(Path(f).relative_to(REPO))
            inside = body_lines(f)
            stmts = [x for x in stmts if x in inside]
            missing = [x for x in missing if x in inside]
            if len(stmts) == 0:
                continue
            tot_s += len(stmts)
            tot_m += len(missing)
            if missing or rel.count("/") <= 1:
                out["files"][rel] = {"statements": len(stmts), "missed": len(missing), "missed_lines": missing}
        out["statements"] = tot_s
        out["executed"] = tot_s - tot_m
        out["rule"] = "statements inside function bodies of /repo/tumfl executed by this check's streams (oracle + T2), measured with coverage.py"
        return out
    except Exception as e:  # noqa: BLE001
        return {"measured": False, "error": str(e)[:200]}


def main() -> int:
    ap = argparse.ArgumentParser()
    ap.add_argument("prop")
    ap.add_argument("--tier", default=os.environ.get("VERIF_TIER", "quick"), choices=["quick", "thorough"])
    ap.add_argument("--replay")
    a = ap.parse_args()
    seed = int(os.environ.get("VERIF_SEED", "0"))
    import props
    if a.prop not in props.REGISTRY:
        print(f"unknown property {a.prop}", file=sys.stderr)
        return 2
    spec = props.REGISTRY[a.prop]
    ctx = fw.Ctx(a.prop, a.tier, seed)
    try:
        if a.replay:
            if not DRIVER.exists():
                fw.lake(["build", "driver"])
            return props.replay(ctx, spec, json.loads(Path(a.replay).read_text()))
        lock = fw._lock()
        try:
            rep = regenerate(ctx)
        finally:
            lock.close()
        for p in rep.get("problems", []):
            if p["extractor"].lower() in [e.lower() for e in spec.get("extractors", [])] or p["extractor"] == "all":
                ctx.tie_broken(f"T1:{p['extractor']}", p)
        ctx.lean = fw.lean_check(a.prop, spec["obligations"], spec["modules"], a.tier == "thorough")
        if not DRIVER.exists():
            # the driver itself does not build: nothing dynamic can run against the Spec
            raise fw.InfraError("Lean driver does not build:\n" + ctx.lean.log[-3000:])
        cov = start_code_coverage()
        try:
            spec["run"](ctx)
        except fw.EnoughEvidence as e:
            print(f"note: {e}", file=sys.stderr)
        finally:
            ctx.code_coverage = stop_code_coverage(cov)
        return fw.finish(ctx, spec)
    except fw.InfraError as e:
        print(f"INFRASTRUCTURE FAILURE {a.prop}: {e}", file=sys.stderr)
        return 2
    except Exception:
        traceback.print_exc()
        print(f"INFRASTRUCTURE FAILURE {a.prop}", file=sys.stderr)
        return 2


if __name__ == "__main__":
    sys.exit(main())
