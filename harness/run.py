"""Entry point of every check:  run.py Cxx [--tier quick|thorough] [--replay file]"""
from __future__ import annotations

import argparse
import json
import os
import subprocess
import sys
import traceback
from pathlib import Path

sys.path.insert(0, str(Path(__file__).resolve().parent))

from common import DRIVER, LEAN, VERIF  # noqa: E402
import framework as fw  # noqa: E402


def regenerate(ctx: fw.Ctx) -> dict:
    """T1: run the extractors in a fresh interpreter against /repo's working tree."""
    r = subprocess.run([sys.executable, str(VERIF / "harness" / "extract.py")], capture_output=True, text=True,
                       timeout=600)
    if r.returncode != 0:
        ctx.tie_broken("T1:extract", {"stderr": r.stderr[-1500:], "stdout": r.stdout[-500:]})
        return {"problems": [{"extractor": "all", "what": "extract.py failed"}]}
    rep = json.loads(r.stdout.strip().split("\n")[-1])
    return rep


def main() -> int:
    ap = argparse.ArgumentParser()
    ap.add_argument("prop")
    ap.add_argument("--tier", default=os.environ.get("VERIF_TIER", "quick"), choices=["quick", "thorough"])
    ap.add_argument("--replay")
    a = ap.parse_args()
    seed = int(os.environ.get("VERIF_SEED", "0"))
    import props
    if a.prop not in props.REGISTRY:
        print(f"unknown property {a.prop}", file=sys.stderr)
        return 2
    spec = props.REGISTRY[a.prop]
    ctx = fw.Ctx(a.prop, a.tier, seed)
    try:
        if a.replay:
            if not DRIVER.exists():
                fw.lake(["build", "driver"])
            return props.replay(ctx, spec, json.loads(Path(a.replay).read_text()))
        lock = fw._lock()
        try:
            rep = regenerate(ctx)
        finally:
            lock.close()
        for p in rep.get("problems", []):
            if p["extractor"].lower() in [e.lower() for e in spec.get("extractors", [])] or p["extractor"] == "all":
                ctx.tie_broken(f"T1:{p['extractor']}", p)
        ctx.lean = fw.lean_check(a.prop, spec["obligations"], spec["modules"], a.tier == "thorough")
        if not DRIVER.exists():
            # the driver itself does not build: nothing dynamic can run against the Spec
            raise fw.InfraError("Lean driver does not build:\n" + ctx.lean.log[-3000:])
        try:
            spec["run"](ctx)
        except fw.EnoughEvidence as e:
            print(f"note: {e}", file=sys.stderr)
        return fw.finish(ctx, spec)
    except fw.InfraError as e:
        print(f"INFRASTRUCTURE FAILURE {a.prop}: {e}", file=sys.stderr)
        return 2
    except Exception:
        traceback.print_exc()
        print(f"INFRASTRUCTURE FAILURE {a.prop}", file=sys.stderr)
        return 2


if __name__ == "__main__":
    sys.exit(main())
