"""Canonical text of real tumfl ASTs, in the format of Tumfl/Model/Dump.lean (T2 correspondence)."""
from __future__ import annotations

from tumfl.AST import (
    Assign, BinOp, Block, Boolean, Break, Chunk, ExpFunctionCall, ExpFunctionDefinition, ExplicitTableField,
    ExpMethodInvocation, FunctionCall, FunctionDefinition, Goto, If, Index, IterativeFor, Label, LocalAssign,
    LocalFunctionDefinition, MethodInvocation, Name, NamedIndex, NamedTableField, Nil, Number, NumberedTableField,
    NumericFor, Repeat, Semicolon, String, Table, UnOp, Vararg, While,
)


def hx(s: str) -> str:
    return s.encode("utf-8").hex()


def par(*xs: str) -> str:
    return "(" + " ".join(xs) + ")"


def pos(n) -> str:
    return f"{n.token.line} {n.token.column}"


def cm(n) -> str:
    return "[" + ",".join("c" + hx(c) for c in n.comment) + "]"


def o(x) -> str:
    return "-" if x is None else "s" + hx(x)


def num(n: Number) -> str:
    return f"N{'true' if n.is_hex else 'false'}:{o(n.integer_part)}:{o(n.fractional_part)}:{o(n.exponent)}:{o(n.float_offset)}"


def exprs(xs) -> str:
    return par(*[expr(x) for x in xs])


def opt(e) -> str:
    return "-" if e is None else expr(e)


def expr(e) -> str:
    if isinstance(e, Nil):
        return par("Nil", pos(e))
    if isinstance(e, Boolean):
        return par("Boolean", pos(e), "true" if e.value else "false")
    if isinstance(e, Vararg):
        return par("Vararg", pos(e))
    if isinstance(e, Number):
        return par("Number", pos(e), num(e))
    if isinstance(e, String):
        return par("String", pos(e), "s" + hx(e.value))
    if isinstance(e, ExpFunctionDefinition):
        return par("ExpFunctionDefinition", pos(e), exprs(e.parameters), block(e.body))
    if isinstance(e, Table):
        return par("Table", pos(e), *[field(f) for f in e.fields])
    if isinstance(e, BinOp):
        return par("BinOp", pos(e), e.op.value, expr(e.left), expr(e.right))
    if isinstance(e, UnOp):
        return par("UnOp", pos(e), e.op.value, expr(e.right))
    if isinstance(e, Name):
        return par("Name", pos(e), "s" + hx(e.variable_name))
    if isinstance(e, Index):
        return par("Index", pos(e), expr(e.lhs), expr(e.variable_name))
    if isinstance(e, NamedIndex):
        return par("NamedIndex", pos(e), expr(e.lhs), expr(e.variable_name))
    if isinstance(e, ExpFunctionCall):
        return par("ExpFunctionCall", pos(e), expr(e.function), exprs(e.arguments))
    if isinstance(e, ExpMethodInvocation):
        return par("ExpMethodInvocation", pos(e), expr(e.function), expr(e.method), exprs(e.arguments))
    return f"<?{type(e).__name__}>"


def field(f) -> str:
    if isinstance(f, ExplicitTableField):
        return par("ExplicitTableField", pos(f), expr(f.at), expr(f.value))
    if isinstance(f, NamedTableField):
        return par("NamedTableField", pos(f), expr(f.field_name), expr(f.value))
    if isinstance(f, NumberedTableField):
        return par("NumberedTableField", pos(f), expr(f.value))
    return f"<?{type(f).__name__}>"


def iff(s: If) -> str:
    fl = "-" if s.false is None else (iff(s.false) if isinstance(s.false, If) else block(s.false))
    return par("If", pos(s), cm(s), expr(s.test), block(s.true), fl)


def stmt(s) -> str:
    if isinstance(s, Assign):
        return par("Assign", pos(s), cm(s), exprs(s.targets), exprs(s.expressions))
    if isinstance(s, Block):
        return block(s)
    if isinstance(s, Break):
        return par("Break", pos(s), cm(s))
    if isinstance(s, FunctionCall):
        return par("FunctionCall", pos(s), cm(s), expr(s.function), exprs(s.arguments))
    if isinstance(s, FunctionDefinition):
        return par("FunctionDefinition", pos(s), cm(s), exprs(s.names), opt(s.method_name), exprs(s.parameters), block(s.body))
    if isinstance(s, Goto):
        return par("Goto", pos(s), cm(s), expr(s.label_name))
    if isinstance(s, Label):
        return par("Label", pos(s), cm(s), expr(s.label_name))
    if isinstance(s, If):
        return iff(s)
    if isinstance(s, IterativeFor):
        return par("IterativeFor", pos(s), cm(s), exprs(s.namelist), exprs(s.explist), block(s.body))
    if isinstance(s, LocalAssign):
        names = par(*[par(expr(n.name), opt(n.attribute)) for n in s.variable_names])
        return par("LocalAssign", pos(s), cm(s), names, "-" if s.expressions is None else exprs(s.expressions))
    if isinstance(s, LocalFunctionDefinition):
        return par("LocalFunctionDefinition", pos(s), cm(s), expr(s.function_name), exprs(s.parameters), block(s.body))
    if isinstance(s, MethodInvocation):
        return par("MethodInvocation", pos(s), cm(s), expr(s.function), expr(s.method), exprs(s.arguments))
    if isinstance(s, NumericFor):
        return par("NumericFor", pos(s), cm(s), expr(s.variable_name), expr(s.start), expr(s.stop), opt(s.step), block(s.body))
    if isinstance(s, Repeat):
        return par("Repeat", pos(s), cm(s), expr(s.condition), block(s.body))
    if isinstance(s, Semicolon):
        return par("Semicolon", pos(s), cm(s))
    if isinstance(s, While):
        return par("While", pos(s), cm(s), expr(s.condition), block(s.body))
    return f"<?{type(s).__name__}>"


def block(b) -> str:
    return par("Chunk" if isinstance(b, Chunk) else "Block", pos(b), cm(b), par(*[stmt(s) for s in b.statements]),
               "-" if b.returns is None else exprs(b.returns))


def hints(hs) -> str:
    return "[" + ",".join(f"{h.where}/{h.what}@{h.token.line}:{h.token.column}" for h in hs) + "]"
