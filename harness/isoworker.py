"""One API call in a FRESH interpreter: the reference for history independence (module-level caches cannot leak into it).
usage: isoworker.py <root> ; reads JSON lines (one op each) on stdin, answers one JSON string per line.  The parent starts a new worker per op."""
import json
import sys
from pathlib import Path

sys.path.insert(0, str(Path(__file__).resolve().parent))


def main() -> int:
    import props
    root = Path(sys.argv[1])
    for line in sys.stdin:
        op = json.loads(line)
        op = tuple(tuple(x) if isinstance(x, list) and i == 2 and op[0] == "resolve" else x for i, x in enumerate(op))
        w = props.ApiWorld(root)
        print(json.dumps(w.call(tuple(op))), flush=True)
        break       # one call per interpreter
    return 0


if __name__ == "__main__":
    sys.exit(main())
