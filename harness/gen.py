"""G1: grammar-directed generator of valid Lua 5.4 chunks (random derivations of manual §9).

A program is generated as a list of lexical tokens and then rendered with randomised layout
(blanks, newlines, comments of several shapes in the gaps).  Validity is by construction and is
re-checked by the Lean Spec in the same driver batch; a rejected program is a generator bug.
Features behind known findings (K1 truncating parentheses, K2 `5.`, K3 `0x.8`) are switchable.
"""
from __future__ import annotations

import random
from dataclasses import dataclass, field

KEYWORDS = {
    "and", "break", "do", "else", "elseif", "end", "false", "for", "function", "goto", "if", "in",
    "local", "nil", "not", "or", "repeat", "return", "then", "true", "until", "while",
}
BINOPS = ["or", "and", "<", ">", "<=", ">=", "~=", "==", "|", "~", "&", "<<", ">>", "..", "+", "-",
          "*", "/", "//", "%", "^"]
UNOPS = ["-", "not", "#", "~"]
NAMES = ["a", "b", "c", "x", "y", "_", "_ENV", "foo", "bar1", "self", "t", "f", "g", "i", "k", "v",
         "n", "andy", "ifx", "e", "E", "p", "x0", "A", "nil_", "is", "as", "require", "d", "ff",
         # identifiers spelled like the formatter's and lexer's internal sentinel values (Separators / TokenType values, Python literals)
         "stmt", "newline", "arg", "indent", "block", "name", "number", "string", "eof", "None"]


def _internal_spellings() -> list[str]:
    """identifiers spelled like the VALUES of the enums the running tree defines (TokenType, Separators): a new member must not become a
    reserved word or a sentinel that ordinary names collide with"""
    out: list[str] = []
    try:
        from tumfl.Token import TokenType
        import tumfl.formatter as _fm
        kws = KEYWORDS | {"as", "is"}   # Lua's own reserved words (fixed list), NOT the running tree's table: a word the tree reserves by accident must stay in the pool
        for enum in (TokenType, getattr(_fm, "Separators", ())):
            for m in enum:
                for sp in (m.value,):
                    if isinstance(sp, str) and sp.isidentifier() and sp.isascii() and sp not in kws and sp not in out and sp not in NAMES:
                        out.append(sp)
    except Exception:  # noqa: BLE001
        pass
    return sorted(out)


NAMES += _internal_spellings()


@dataclass
class Cfg:
    max_depth: int = 6
    max_stats: int = 6
    k1: bool = False  # allow (f()) / (...) in last position of an expression list
    k2: bool = False  # allow numerals with a dangling dot (5. 0x5.)
    k3: bool = False  # allow hexadecimal numerals without integer part (0x.8)
    unicode: bool = True
    comments: float = 0.15
    weird_ws: bool = True
    long_strings: bool = True


@dataclass
class Tok:
    text: str
    kind: str  # name kw num str sym


class ProgGen:
    def __init__(self, rng: random.Random, cfg: Cfg | None = None):
        self.r = rng
        self.c = cfg or Cfg()
        self.budget = 0

    # ---------------------------------------------------------------- literals
    def name(self) -> Tok:
        if self.r.random() < 0.8:
            return Tok(self.r.choice(NAMES), "name")
        n = self.r.choice("abcxyz_ABC") + "".join(
            self.r.choice("abcdefxyz_0123456789EPep") for _ in range(self.r.randint(0, 6))
        )
        if n in KEYWORDS:
            n += "_"
        return Tok(n, "name")

    def numeral(self) -> Tok:
        r = self.r
        hexa = r.random() < 0.35
        digs = "0123456789abcdefABCDEF" if hexa else "0123456789"

        def run(lo: int, hi: int) -> str:
            return "".join(r.choice(digs) for _ in range(r.randint(lo, hi)))

        form = r.random()
        if form < 0.45:
            body = run(1, 5 if r.random() < 0.9 else 22)
            frac = None
        elif form < 0.7:
            body = run(1, 4)
            frac = run(1, 4)
        elif form < 0.8:
            body = ""
            frac = run(1, 4)
            if hexa and not self.c.k3:
                body = run(1, 2)
        elif form < 0.9:
            body = run(1, 4)
            frac = "" if self.c.k2 else run(1, 3)
        else:
            body = run(1, 3)
            frac = None
        s = ("0" + r.choice("xX") if hexa else "") + body
        if frac is not None:
            s += "." + frac
        has_exp = r.random() < (0.35 if frac is not None else 0.15)
        if form >= 0.9:
            has_exp = True
        if frac == "" and not has_exp and not self.c.k2:
            s += "0"
        if has_exp:
            s += r.choice("pP" if hexa else "eE") + r.choice(["", "+", "-"]) + "".join(
                r.choice("0123456789") for _ in range(r.randint(1, 3)))
        return Tok(s, "num")

    def string_value(self) -> str:
        r = self.r
        n = r.choice([0, 1, 1, 2, 3, 5, 8, 13, 30])
        alphabet = "ab z09_-\"'\\[]=\n\t\r\0\x7f{}()%.,;:"
        out = []
        for _ in range(n):
            x = r.random()
            if x < 0.7:
                out.append(r.choice(alphabet))
            elif x < 0.85 or not self.c.unicode:
                out.append(chr(r.randint(1, 126)))
            else:
                out.append(r.choice(["ä", "中", "😀", "\u00a0", "\u2028", "é", "\u0080", "\U0010ffff", "\ud7ff", "\ue000"]))
        return "".join(out)

    def spell_quoted(self, v: str) -> str:
        r = self.r
        q = r.choice("\"'")
        out = [q]
        simple = {"\a": "a", "\b": "b", "\f": "f", "\n": "n", "\r": "r", "\t": "t", "\v": "v",
                  "\\": "\\", '"': '"', "'": "'"}
        i = 0
        for i, ch in enumerate(v):
            nxt = v[i + 1] if i + 1 < len(v) else ""
            o = ord(ch)
            x = r.random()
            must = ch in (q, "\\", "\n", "\r") or o == 0
            if not must and x < 0.7:
                out.append(ch)
            elif ch in simple and x < 0.85:
                if ch == "\n" and r.random() < 0.3:
                    out.append("\\\n")
                else:
                    out.append("\\" + simple[ch])
            elif o < 128 and x < 0.92:
                d = str(o)
                if nxt.isdigit() and nxt.isascii():
                    d = d.rjust(3, "0")
                elif r.random() < 0.3:
                    d = d.rjust(3, "0")
                out.append("\\" + d)
            elif o < 128 and x < 0.96:
                out.append("\\x" + format(o, r.choice(["02x", "02X"])))
            else:
                out.append("\\u{" + format(o, r.choice(["x", "X", "04x", "08x"])) + "}")
            if r.random() < 0.04:
                # \z must not be followed by a value character that is white space
                if not (nxt and nxt in " \t\n\r\f\v"):
                    out.append("\\z" + r.choice(["", " ", "\n  ", "\t\n\n "]))
        out.append(q)
        return "".join(out)

    def spell_long(self, v: str) -> str | None:
        if "\r" in v:
            return None
        for lvl in self.r.sample(range(0, 4), 4):
            close = "]" + "=" * lvl + "]"
            # the first closer in value+closer must be the one we append
            if (v + close).find(close) != len(v):
                continue
            pre = "\n" if (v.startswith("\n") or self.r.random() < 0.3) else ""
            return "[" + "=" * lvl + "[" + pre + v + close
        return None

    def string(self) -> Tok:
        v = self.string_value()
        if self.c.long_strings and self.r.random() < 0.25:
            s = self.spell_long(v)
            if s is not None:
                return Tok(s, "str")
        return Tok(self.spell_quoted(v), "str")

    # ---------------------------------------------------------------- expressions
    def sym(self, s: str) -> Tok:
        return Tok(s, "kw" if s in KEYWORDS else "sym")

    def explist(self, d: int, lo: int = 1, hi: int = 3) -> list[Tok]:
        n = self.r.randint(lo, hi)
        out: list[Tok] = []
        for i in range(n):
            if i:
                out.append(self.sym(","))
            out += self.exp(d, last=(i == n - 1))
        return out

    def exp(self, d: int, last: bool = False) -> list[Tok]:
        toks = self._exp(d, last)
        if last and not self.c.k1:
            # strip truncating parentheses: ( f() ) / ( ... ) in a multiple-value position
            while toks[0].text == "(" and self._closes_at_end(toks) and self._maybe_multi(toks[1:-1]):
                toks = toks[1:-1]
        return toks

    @staticmethod
    def _closes_at_end(toks: list[Tok]) -> bool:
        depth = 0
        for i, t in enumerate(toks):
            if t.kind == "sym" and t.text == "(":
                depth += 1
            elif t.kind == "sym" and t.text == ")":
                depth -= 1
                if depth == 0:
                    return i == len(toks) - 1
        return False

    def _exp(self, d: int, last: bool = False) -> list[Tok]:
        r = self.r
        if d <= 0 or r.random() < 0.35:
            return self.simple(d, last)
        x = r.random()
        if x < 0.6:
            return self.exp(d - 1) + [self.sym(r.choice(BINOPS))] + self.exp(d - 1)
        if x < 0.8:
            return [self.sym(r.choice(UNOPS))] + self.exp(d - 1)
        if x < 0.9:
            # parenthesised: in last position only around things that are not multi-valued
            inner = self.exp(d - 1)
            if last and not self.c.k1 and self._maybe_multi(inner):
                return inner
            return [self.sym("(")] + inner + [self.sym(")")]
        return self.simple(d, last)

    @staticmethod
    def _maybe_multi(toks: list[Tok]) -> bool:
        # conservative: anything ending in ')' , a string/table call, or being '...'
        t = toks[-1].text
        return t in (")", "...", "}") or toks[-1].kind == "str"

    def simple(self, d: int, last: bool = False) -> list[Tok]:
        r = self.r
        x = r.random()
        if x < 0.2:
            return [self.numeral()]
        if x < 0.35:
            return [self.string()]
        if x < 0.45:
            return [self.sym(r.choice(["nil", "true", "false"]))]
        if x < 0.5:
            return [self.sym("...")]
        if d > 0 and x < 0.58:
            return self.table(d - 1)
        if d > 0 and x < 0.64:
            return [self.sym("function")] + self.funcbody(d - 1)
        return self.suffixed(d)

    def primary(self, d: int) -> list[Tok]:
        if d > 0 and self.r.random() < 0.15:
            return [self.sym("(")] + self.exp(d - 1) + [self.sym(")")]
        return [self.name()]

    def args(self, d: int) -> list[Tok]:
        x = self.r.random()
        if x < 0.7 or d <= 0:
            inner = self.explist(d - 1, 0, 3) if d > 0 else []
            return [self.sym("(")] + inner + [self.sym(")")]
        if x < 0.85:
            return [self.string()]
        return self.table(d - 1)

    def suffixed(self, d: int, want: str = "any") -> list[Tok]:
        """want: any | call | var"""
        r = self.r
        out = self.primary(d)
        n = r.choice([0, 0, 1, 1, 2, 3]) if d > 0 else 0
        kinds = []
        for _ in range(n):
            kinds.append(r.choice(["dot", "index", "call", "mcall"]))
        if want == "call" and (not kinds or kinds[-1] not in ("call", "mcall")):
            kinds.append(r.choice(["call", "mcall"]))
        if want == "var":
            if out[0].text == "(" and not kinds:
                kinds.append("dot")
            if kinds and kinds[-1] in ("call", "mcall"):
                kinds.append(r.choice(["dot", "index"]))
        for k in kinds:
            if k == "dot":
                out += [self.sym("."), self.name()]
            elif k == "index":
                out += [self.sym("[")] + self.exp(max(d - 1, 0)) + [self.sym("]")]
            elif k == "call":
                out += self.args(d)
            else:
                out += [self.sym(":"), self.name()] + self.args(d)
        return out

    def table(self, d: int) -> list[Tok]:
        r = self.r
        out = [self.sym("{")]
        n = r.choice([0, 1, 2, 3, 4])
        for i in range(n):
            x = r.random()
            lastf = i == n - 1
            if x < 0.5:
                out += self.exp(d, last=lastf)
            elif x < 0.75:
                out += [self.name(), self.sym("=")] + self.exp(d)
            else:
                out += [self.sym("[")] + self.exp(d) + [self.sym("]"), self.sym("=")] + self.exp(d)
            if not lastf or r.random() < 0.3:
                out.append(self.sym(r.choice([",", ",", ";"])))
        out.append(self.sym("}"))
        return out

    def funcbody(self, d: int) -> list[Tok]:
        r = self.r
        out = [self.sym("(")]
        n = r.choice([0, 1, 2, 3])
        ps: list[Tok] = []
        for i in range(n):
            if i:
                ps.append(self.sym(","))
            ps.append(self.name())
        if r.random() < 0.3:
            if ps:
                ps.append(self.sym(","))
            ps.append(self.sym("..."))
        out += ps + [self.sym(")")] + self.block(d) + [self.sym("end")]
        return out

    # ---------------------------------------------------------------- statements
    def block(self, d: int, top: bool = False) -> list[Tok]:
        r = self.r
        n = r.randint(0, self.c.max_stats) if d > 0 else r.randint(0, 2)
        if top:
            n = max(n, 1)
        out: list[Tok] = []
        for _ in range(n):
            st = self.stat(d)
            if out and st[0].text == "(":
                # `f\n(g)()` would continue the previous statement: Lua needs the `;` here
                out.append(self.sym(";"))
            out += st
        if r.random() < (0.25 if not top else 0.15):
            out.append(self.sym("return"))
            if r.random() < 0.8:
                out += self.explist(d, 1, 3)
            if r.random() < 0.3:
                out.append(self.sym(";"))
        return out

    def stat(self, d: int) -> list[Tok]:
        r = self.r
        kinds = ["assign", "call", "local", "semi", "break", "goto", "label"]
        if d > 0:
            kinds += ["do", "while", "repeat", "if", "fornum", "forin", "function", "localfunction",
                      "assign", "call", "local", "if"]
        k = r.choice(kinds)
        S = self.sym
        if k == "semi":
            return [S(";")]
        if k == "break":
            return [S("break")]
        if k == "goto":
            return [S("goto"), self.name()]
        if k == "label":
            return [S("::"), self.name(), S("::")]
        if k == "assign":
            n = r.choice([1, 1, 1, 2, 3])
            out: list[Tok] = []
            for i in range(n):
                if i:
                    out.append(S(","))
                out += self.suffixed(d, "var")
            return out + [S("=")] + self.explist(d, 1, 3)
        if k == "call":
            return self.suffixed(d, "call")
        if k == "local":
            n = r.choice([1, 1, 2, 3])
            out = [S("local")]
            for i in range(n):
                if i:
                    out.append(S(","))
                out.append(self.name())
                if r.random() < 0.2:
                    out += [S("<"), Tok(r.choice(["const", "close", "const"]), "name"), S(">")]
            if r.random() < 0.75:
                out += [S("=")] + self.explist(d, 1, 3)
            return out
        if k == "do":
            return [S("do")] + self.block(d - 1) + [S("end")]
        if k == "while":
            return [S("while")] + self.exp(d - 1) + [S("do")] + self.block(d - 1) + [S("end")]
        if k == "repeat":
            return [S("repeat")] + self.block(d - 1) + [S("until")] + self.exp(d - 1)
        if k == "if":
            out = [S("if")] + self.exp(d - 1) + [S("then")] + self.block(d - 1)
            for _ in range(r.choice([0, 0, 1, 2])):
                out += [S("elseif")] + self.exp(d - 1) + [S("then")] + self.block(d - 1)
            if r.random() < 0.4:
                out += [S("else")] + self.block(d - 1)
            return out + [S("end")]
        if k == "fornum":
            out = [S("for"), self.name(), S("=")] + self.exp(d - 1) + [S(",")] + self.exp(d - 1)
            if r.random() < 0.4:
                out += [S(",")] + self.exp(d - 1)
            return out + [S("do")] + self.block(d - 1) + [S("end")]
        if k == "forin":
            out = [S("for"), self.name()]
            for _ in range(r.choice([0, 1, 2])):
                out += [S(","), self.name()]
            return out + [S("in")] + self.explist(d - 1, 1, 3) + [S("do")] + self.block(d - 1) + [S("end")]
        if k == "function":
            out = [S("function"), self.name()]
            for _ in range(r.choice([0, 0, 1, 2])):
                out += [S("."), self.name()]
            if r.random() < 0.3:
                out += [S(":"), self.name()]
            return out + self.funcbody(d - 1)
        if k == "localfunction":
            return [S("local"), S("function"), self.name()] + self.funcbody(d - 1)
        raise AssertionError(k)

    def chunk(self) -> list[Tok]:
        return self.block(self.c.max_depth, top=True)


# -------------------------------------------------------------------- rendering
ALNUM = set("abcdefghijklmnopqrstuvwxyzABCDEFGHIJKLMNOPQRSTUVWXYZ0123456789_")


def can_touch(a: Tok, b: Tok) -> bool:
    """Conservative: may tokens a and b be written without anything between them?"""
    x, y = a.text[-1], b.text[0]
    if x in ALNUM and y in ALNUM:
        return False
    if a.kind == "num" and (y in ALNUM or y == "."):
        return False
    if x == "." and (y == "." or y.isdigit()):
        return False
    if a.text == "-" and y == "-":
        return False
    if x in "<>=~/:" and y in "<>=~/:":
        return False
    if x == "[" and y in "[=":
        return False
    if a.kind == "num" and b.kind == "num":
        return False
    return True


def comment(r: random.Random) -> str:
    body = r.choice(["", " c", " x = 1", " [[", " ]]", " --", "[", "[=", " 'q", ' "q', " end", "[ [", "]==]",
                     " é中", "-", "[==", "=[", " a\tb "])
    x = r.random()
    if x < 0.5:
        if body.startswith("[[") or body.startswith("[="):
            body = " " + body
        return "--" + body + "\n"
    if x < 0.6:
        return "--" + r.choice(["[", "[=", "[==", "[ [", "[=x", "[]"]) + " short\n"
    lvl = r.choice([0, 0, 1, 2, 3])
    close = "]" + "=" * lvl + "]"
    text = r.choice(["", " long ", "\n multi\n line ", " ]] ", " ]=] ", " -- x", "[[", "\n", " a = 'b' "])
    if close in text or (text + close).index(close) != len(text):
        text = " t "
    return "--[" + "=" * lvl + "[" + text + close


def render(toks: list[Tok], r: random.Random, cfg: Cfg | None = None, plain: bool = False) -> str:
    cfg = cfg or Cfg()
    out: list[str] = []
    prev: Tok | None = None
    for t in toks:
        gap = ""
        if prev is not None:
            if plain:
                gap = " "
            else:
                x = r.random()
                if x < 0.12 and can_touch(prev, t):
                    gap = ""
                elif x < 0.6:
                    gap = " "
                elif x < 0.8:
                    gap = "\n"
                elif x < 0.9:
                    gap = r.choice(["  ", "\t", " \n ", "\n\n", "\n\t"])
                elif cfg.weird_ws:
                    gap = r.choice(["\f", "\v", " \f ", "\t\v"])
                else:
                    gap = " "
                if r.random() < cfg.comments:
                    c = comment(r)
                    pre = gap if gap else (" " if not can_touch(prev, Tok("--", "sym")) else "")
                    if prev.text.endswith("-"):
                        pre = pre or " "
                    gap = pre + c + r.choice(["", " ", "\n"])
                    if not gap.endswith(("\n", " ")) and not c.endswith("\n"):
                        gap += " "
        elif not plain and r.random() < cfg.comments:
            gap = comment(r) + r.choice(["", "\n"])
            if not gap.endswith("\n") and not gap.endswith("]"):
                gap += "\n"
            if gap.endswith("]"):
                gap += " "
        out.append(gap)
        out.append(t.text)
        prev = t
    if not plain:
        x = r.random()
        if x < 0.3:
            out.append("\n")
        elif x < 0.4:
            out.append(" " + comment(r))
        elif x < 0.45:
            out.append("  ")
    return "".join(out)


def program(r: random.Random, cfg: Cfg | None = None, plain: bool = False) -> str:
    cfg = cfg or Cfg()
    g = ProgGen(r, cfg)
    toks = g.chunk()
    src = render(toks, r, cfg, plain)
    if not plain and r.random() < 0.05:
        src = "#!/usr/bin/lua -x\n" + src
    return src
