"""T1: regenerate Tumfl/Gen/*.lean from /repo's working tree.

Every finite decision function of the code that a theorem depends on is evaluated over its whole
domain (or read from the source) and written out as Lean data.  Each extractor also tests its own
abstraction: if the decision turns out to depend on more than the probed features, the extractor
reports it and the tie counts as broken.

Run in a fresh interpreter:  python extract.py  ->  prints a JSON report, writes the Lean files.
"""
from __future__ import annotations

import itertools
import json
import sys
from pathlib import Path

sys.path.insert(0, str(Path(__file__).resolve().parent))
from common import LEAN, REPO  # noqa: E402

GEN = LEAN / "Tumfl" / "Gen"

BOPS = ["or", "and", "lt", "gt", "le", "ge", "ne", "eq", "bor", "bxor", "band", "shl", "shr",
        "concat", "add", "sub", "mul", "div", "idiv", "mod", "pow"]
BOP_PY = {"OR": "or", "AND": "and", "LESS_THAN": "lt", "GREATER_THAN": "gt", "LESS_EQUALS": "le",
          "GREATER_EQUALS": "ge", "NOT_EQUALS": "ne", "EQUALS": "eq", "BIT_OR": "bor", "BIT_XOR": "bxor",
          "BIT_AND": "band", "BIT_SHIFT_LEFT": "shl", "BIT_SHIFT_RIGHT": "shr", "CONCAT": "concat",
          "PLUS": "add", "MINUS": "sub", "MULT": "mul", "DIVIDE": "div", "INTEGER_DIVISION": "idiv",
          "MODULO": "mod", "EXPONENT": "pow"}
UOPS = ["neg", "len", "bnot", "not"]
UOP_PY = {"MINUS": "neg", "HASH": "len", "BIT_XOR": "bnot", "NOT": "not"}


def write_if_changed(path: Path, text: str) -> bool:
    path.parent.mkdir(parents=True, exist_ok=True)
    if path.exists() and path.read_text() == text:
        return False
    path.write_text(text)
    return True


class Report:
    def __init__(self) -> None:
        self.problems: list[dict] = []
        self.info: dict = {}

    def problem(self, extractor: str, what: str, **kw) -> None:
        if len(self.problems) < 50:
            self.problems.append({"extractor": extractor, "what": what, **kw})


# --------------------------------------------------------------------------- brackets (C11)
def extract_brackets(rep: Report) -> str:
    from tumfl.AST import (BinaryOperand, BinOp, Boolean, ExpFunctionCall, Index, Name, Nil, Number, String,
                           Table, UnaryOperand, UnOp, Vararg)
    from tumfl.formatter import Formatter, FormattingStyle, Separators
    from tumfl.Token import Token, TokenType

    tok = Token(TokenType.NAME, "a", 1, 1)
    bops = {BOP_PY[o.name]: o for o in BinaryOperand}
    uops = {UOP_PY[o.name]: o for o in UnaryOperand}
    if sorted(bops) != sorted(BOPS) or sorted(uops) != sorted(UOPS):
        rep.problem("brackets", "operator enumeration changed", binary=sorted(bops), unary=sorted(uops))
        raise SystemExit(3)

    def atom(i: int = 0):
        return Name(tok, "a")

    def atoms_variety():
        return [Name(tok, "b"), Number(tok, False, "1"), String(tok, "s"), Table(tok, []), Vararg(tok),
                Nil(tok), Boolean(tok, True), ExpFunctionCall(tok, Name(tok, "f"), []),
                Index(tok, Name(tok, "t"), Name(tok, "k"))]

    def kinds():
        ks = [("atom", lambda: atom())]
        for u in UOPS:
            ks.append((f"un {u}", (lambda u=u: UnOp(tok, uops[u], atom()))))
        for o in BOPS:
            ks.append((f"bin {o}", (lambda o=o: BinOp(tok, bops[o], atom(), atom()))))
        return ks

    def deep_variants(kname: str):
        """same kind, different grandchildren - the decision must not change"""
        if kname.startswith("un "):
            u = kname.split()[1]
            return [UnOp(tok, uops[u], BinOp(tok, bops["pow"], atom(), atom())),
                    UnOp(tok, uops[u], UnOp(tok, uops["not"], atom()))]
        if kname.startswith("bin "):
            o = kname.split()[1]
            return [BinOp(tok, bops[o], BinOp(tok, bops["or"], atom(), atom()), UnOp(tok, uops["neg"], atom())),
                    BinOp(tok, bops[o], BinOp(tok, bops["pow"], atom(), atom()), BinOp(tok, bops["concat"], atom(), atom()))]
        return atoms_variety()

    bin_bits = 0
    un_bits = 0
    un_space_bits = 0
    n_bin = n_un = 0
    kind_list = kinds()
    for allb, close, ruc in itertools.product([False, True], repeat=3):
        opt = int(allb) * 4 + int(close) * 2 + int(ruc)
        S = type("S", (FormattingStyle,), dict(ADD_ALL_BRACKETS=allb, ADD_CLOSE_BRACKETS=close,
                                                REMOVE_UNNECESSARY_CHARS=ruc))
        f = Formatter(S)

        def child_bracketed(node, side: str, child) -> bool:
            """Decide from the emitted pieces whether `child` was put in brackets."""
            out = f.visit(node)
            lin, rin = f.visit(node.left), f.visit(node.right)
            mid = [Separators.Space, node.op.value, Separators.Space]
            hits = set()
            for lb in (False, True):
                for rb in (False, True):
                    cand = (["(", *lin, ")"] if lb else lin) + mid + (["(", *rin, ")"] if rb else rin)
                    if cand == out:
                        hits.add(lb if side == "L" else rb)
            if len(hits) != 1:
                rep.problem("brackets", "unexpected shape of visit_BinOp output", out=repr(out)[:300])
                return True
            return hits.pop()

        for oi, o in enumerate(BOPS):
            for left in (0, 1):
                for ki, (kname, mk) in enumerate(kind_list):
                    child = mk()
                    node = BinOp(tok, bops[o], child, atom()) if left else BinOp(tok, bops[o], atom(), child)
                    v = child_bracketed(node, "L" if left else "R", child)
                    n_bin += 1
                    # self-test: other operand and grandchildren are irrelevant
                    for alt in deep_variants(kname):
                        other = BinOp(tok, bops["or"], atom(), atom())
                        node2 = BinOp(tok, bops[o], alt, other) if left else BinOp(tok, bops[o], other, alt)
                        if child_bracketed(node2, "L" if left else "R", alt) != v:
                            rep.problem("brackets", "decision depends on more than (options, operator, side, child kind)",
                                        opt=opt, op=o, left=left, kind=kname)
                    if v:
                        bin_bits |= 1 << (((opt * 21 + oi) * 2 + left) * 26 + ki)
        for ui, u in enumerate(UOPS):
            for ki, (kname, mk) in enumerate(kind_list):
                child = mk()
                node = UnOp(tok, uops[u], child)
                out = f.visit(node)
                inner = f.visit(child)
                n_un += 1
                if out[0] != uops[u].value:
                    rep.problem("brackets", "visit_UnOp does not start with the operator", out=repr(out))
                rest = out[1:]
                br = bool(rest) and rest[0] == "(" and rest[-1] == ")" and rest[1:-1] == inner
                spaced = bool(rest) and rest[0] == Separators.Space
                if not br and not (rest == inner or (spaced and rest[1:] == inner)):
                    rep.problem("brackets", "unexpected shape of visit_UnOp output", out=repr(out))
                for alt in deep_variants(kname):
                    out2 = f.visit(UnOp(tok, uops[u], alt))[1:]
                    br2 = bool(out2) and out2[0] == "(" and out2[-1] == ")" and out2[1:-1] == f.visit(alt)
                    if br2 != br:
                        rep.problem("brackets", "unary decision depends on more than (options, operator, child kind)",
                                    opt=opt, op=u, kind=kname)
                idx = (opt * 4 + ui) * 26 + ki
                if br:
                    un_bits |= 1 << idx
                if spaced:
                    un_space_bits |= 1 << idx
    rep.info["brackets"] = {"binary_entries": n_bin, "unary_entries": n_un}
    return f"""/-! GENERATED by harness/extract.py from /repo (tumfl/formatter.py visit_BinOp / visit_UnOp) - do not edit.
Bracket decisions as emitted by the real formatter, evaluated exhaustively:
{n_bin} binary entries (8 option sets x 21 operators x 2 sides x 26 child kinds),
{n_un} unary entries (8 option sets x 4 operators x 26 child kinds). -/
namespace Tumfl.Gen

def binBracketBits : Nat := 0x{bin_bits:x}
def unBracketBits : Nat := 0x{un_bits:x}
def unSpaceBits : Nat := 0x{un_space_bits:x}

end Tumfl.Gen
"""


def lchar(c: str) -> str:
    return f"Char.ofNat {ord(c)}"


def lstr(s: str) -> str:
    out = []
    for ch in s:
        if ch in '"\\':
            out.append("\\" + ch)
        elif 32 <= ord(ch) < 127:
            out.append(ch)
        else:
            out.append("\\u{%x}" % ord(ch))
    return '"' + "".join(out) + '"'


# --------------------------------------------------------------------------- lexer tables
def extract_lextables(rep: Report) -> str:
    import tumfl.lexer as L
    from tumfl.Token import TokenType

    def chars(xs) -> str:
        return "[" + ", ".join(lchar(c) for c in xs) + "]"

    plain = L.Lexer("", typed=False)
    typed = L.Lexer("", typed=True)
    kw_plain = dict(plain.keywords)
    kw_typed = dict(typed.keywords)
    extra = sorted(set(kw_typed) - set(kw_plain))
    if extra != ["as", "is"] or any(kw_typed[k] != v for k, v in kw_plain.items()):
        rep.problem("LexTables", "typed/untyped keyword tables differ by more than as/is", extra=extra)
    for name, val in (("NUMBER", L.NUMBER), ("HEX_NUMBER", L.HEX_NUMBER), ("LETTER", L.LETTER), ("ALPHANUMERIC", L.ALPHANUMERIC)):
        if any(len(c) != 1 for c in val):
            rep.problem("LexTables", f"{name} is not a list of single characters")
    kws = ", ".join(f"({lstr(k)}, {lstr(v.name)})" for k, v in sorted(kw_typed.items()))
    syms = ", ".join(f"({lstr(k)}, {lstr(v.name)})" for k, v in sorted(L.SYMBOLS.items()))
    esc = ", ".join(f"({lchar(k)}, {lchar(v)})" for k, v in L.ESCAPE_CODES.items())
    tts = ", ".join(f"({lstr(t.name)}, {lstr(t.value)})" for t in TokenType)
    rep.info["lextables"] = {"keywords": len(kw_typed), "symbols": len(L.SYMBOLS), "escapes": len(L.ESCAPE_CODES)}
    return f"""/-! GENERATED by harness/extract.py from /repo (tumfl/lexer.py, tumfl/Token.py) - do not edit. -/
namespace Tumfl.Gen

def whitespace : List Char := {chars(L.WHITESPACE)}
def number : List Char := {chars(L.NUMBER)}
def hexNumber : List Char := {chars(L.HEX_NUMBER)}
def letter : List Char := {chars(L.LETTER)}
def alphanumeric : List Char := {chars(L.ALPHANUMERIC)}
/-- ESCAPE_CODES: escape letter -> character -/
def escapeCodes : List (Char × Char) := [{esc}]
/-- keyword text -> TokenType member name, as seen by a `typed=True` lexer (`as`, `is` only when typed) -/
def keywords : List (String × String) := [{kws}]
/-- SYMBOLS: text -> TokenType member name -/
def symbols : List (String × String) := [{syms}]
/-- TokenType: member name -> value -/
def tokenTypes : List (String × String) := [{tts}]

end Tumfl.Gen
"""


EXTRACTORS = {
    "Brackets": extract_brackets,
    "LexTables": extract_lextables,
}


def main() -> int:
    rep = Report()
    changed = []
    for name, fn in EXTRACTORS.items():
        try:
            text = fn(rep)
        except SystemExit:
            raise
        except Exception as e:  # the code no longer has the shape the extractor needs
            import traceback
            rep.problem(name, f"extractor crashed: {type(e).__name__}: {e}", trace=traceback.format_exc()[-1500:])
            continue
        if write_if_changed(GEN / f"{name}.lean", text):
            changed.append(name)
    print(json.dumps({"problems": rep.problems, "changed": changed, "info": rep.info}))
    return 0


if __name__ == "__main__":
    sys.exit(main())
