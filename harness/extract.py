"""T1: regenerate Tumfl/Gen/*.lean from /repo's working tree.

Every finite decision function of the code that a theorem depends on is evaluated over its whole
domain (or read from the source) and written out as Lean data.  Each extractor also tests its own
abstraction: if the decision turns out to depend on more than the probed features, the extractor
reports it and the tie counts as broken.

Run in a fresh interpreter:  python extract.py  ->  prints a JSON report, writes the Lean files.
"""
from __future__ import annotations

import itertools
import json
import sys
from pathlib import Path

sys.path.insert(0, str(Path(__file__).resolve().parent))
from common import LEAN, REPO  # noqa: E402

GEN = LEAN / "Tumfl" / "Gen"

BOPS = ["or", "and", "lt", "gt", "le", "ge", "ne", "eq", "bor", "bxor", "band", "shl", "shr",
        "concat", "add", "sub", "mul", "div", "idiv", "mod", "pow"]
BOP_PY = {"OR": "or", "AND": "and", "LESS_THAN": "lt", "GREATER_THAN": "gt", "LESS_EQUALS": "le",
          "GREATER_EQUALS": "ge", "NOT_EQUALS": "ne", "EQUALS": "eq", "BIT_OR": "bor", "BIT_XOR": "bxor",
          "BIT_AND": "band", "BIT_SHIFT_LEFT": "shl", "BIT_SHIFT_RIGHT": "shr", "CONCAT": "concat",
          "PLUS": "add", "MINUS": "sub", "MULT": "mul", "DIVIDE": "div", "INTEGER_DIVISION": "idiv",
          "MODULO": "mod", "EXPONENT": "pow"}
UOPS = ["neg", "len", "bnot", "not"]
UOP_PY = {"MINUS": "neg", "HASH": "len", "BIT_XOR": "bnot", "NOT": "not"}


def write_if_changed(path: Path, text: str) -> bool:
    path.parent.mkdir(parents=True, exist_ok=True)
    if path.exists() and path.read_text() == text:
        return False
    path.write_text(text)
    return True


class Report:
    def __init__(self) -> None:
        self.problems: list[dict] = []
        self.info: dict = {}

    def problem(self, extractor: str, what: str, **kw) -> None:
        if len(self.problems) < 50:
            self.problems.append({"extractor": extractor, "what": what, **kw})


# --------------------------------------------------------------------------- brackets (C11)
def extract_brackets(rep: Report) -> str:
    from tumfl.AST import (BinaryOperand, BinOp, Boolean, ExpFunctionCall, Index, Name, Nil, Number, String,
                           Table, UnaryOperand, UnOp, Vararg)
    from tumfl.formatter import Formatter, FormattingStyle, Separators
    from tumfl.Token import Token, TokenType

    tok = Token(TokenType.NAME, "a", 1, 1)
    bops = {BOP_PY[o.name]: o for o in BinaryOperand}
    uops = {UOP_PY[o.name]: o for o in UnaryOperand}
    if sorted(bops) != sorted(BOPS) or sorted(uops) != sorted(UOPS):
        rep.problem("brackets", "operator enumeration changed", binary=sorted(bops), unary=sorted(uops))
        raise SystemExit(3)

    def atom(i: int = 0):
        return Name(tok, "a")

    def atoms_variety():
        return [Name(tok, "b"), Number(tok, False, "1"), String(tok, "s"), Table(tok, []), Vararg(tok),
                Nil(tok), Boolean(tok, True), ExpFunctionCall(tok, Name(tok, "f"), []),
                Index(tok, Name(tok, "t"), Name(tok, "k"))]

    def kinds():
        ks = [("atom", lambda: atom())]
        for u in UOPS:
            ks.append((f"un {u}", (lambda u=u: UnOp(tok, uops[u], atom()))))
        for o in BOPS:
            ks.append((f"bin {o}", (lambda o=o: BinOp(tok, bops[o], atom(), atom()))))
        return ks

    def deep_variants(kname: str):
        """same kind, different grandchildren - the decision must not change"""
        if kname.startswith("un "):
            u = kname.split()[1]
            return [UnOp(tok, uops[u], BinOp(tok, bops["pow"], atom(), atom())),
                    UnOp(tok, uops[u], UnOp(tok, uops["not"], atom()))] + [UnOp(tok, uops[u], v) for v in atoms_variety()]
        if kname.startswith("bin "):
            o = kname.split()[1]
            return [BinOp(tok, bops[o], BinOp(tok, bops["or"], atom(), atom()), UnOp(tok, uops["neg"], atom())),
                    BinOp(tok, bops[o], BinOp(tok, bops["pow"], atom(), atom()), BinOp(tok, bops["concat"], atom(), atom())),
                    BinOp(tok, bops[o], Number(tok, False, "1"), String(tok, "s")), BinOp(tok, bops[o], Table(tok, []), Vararg(tok))]
        return atoms_variety()

    bin_bits = 0
    un_bits = 0
    un_space_bits = 0
    n_bin = n_un = 0
    kind_list = kinds()
    for allb, close, ruc in itertools.product([False, True], repeat=3):
        opt = int(allb) * 4 + int(close) * 2 + int(ruc)
        S = type("S", (FormattingStyle,), dict(ADD_ALL_BRACKETS=allb, ADD_CLOSE_BRACKETS=close,
                                                REMOVE_UNNECESSARY_CHARS=ruc))
        f = Formatter(S)

        def child_bracketed(node, side: str, child) -> bool:
            """Decide from the emitted pieces whether `child` was put in brackets."""
            out = f.visit(node)
            lin, rin = f.visit(node.left), f.visit(node.right)
            mid = [Separators.Space, node.op.value, Separators.Space]
            hits = set()
            for lb in (False, True):
                for rb in (False, True):
                    cand = (["(", *lin, ")"] if lb else lin) + mid + (["(", *rin, ")"] if rb else rin)
                    if cand == out:
                        hits.add(lb if side == "L" else rb)
            if len(hits) != 1:
                rep.problem("brackets", "unexpected shape of visit_BinOp output", out=repr(out)[:300])
                return True
            return hits.pop()

        for oi, o in enumerate(BOPS):
            for left in (0, 1):
                for ki, (kname, mk) in enumerate(kind_list):
                    child = mk()
                    node = BinOp(tok, bops[o], child, atom()) if left else BinOp(tok, bops[o], atom(), child)
                    v = child_bracketed(node, "L" if left else "R", child)
                    n_bin += 1
                    # self-test: other operand and grandchildren are irrelevant
                    for alt in deep_variants(kname):
                        other = BinOp(tok, bops["or"], atom(), atom())
                        node2 = BinOp(tok, bops[o], alt, other) if left else BinOp(tok, bops[o], other, alt)
                        if child_bracketed(node2, "L" if left else "R", alt) != v:
                            rep.problem("brackets", "decision depends on more than (options, operator, side, child kind)",
                                        opt=opt, op=o, left=left, kind=kname)
                    if v:
                        bin_bits |= 1 << (((opt * 21 + oi) * 2 + left) * 26 + ki)
        for ui, u in enumerate(UOPS):
            for ki, (kname, mk) in enumerate(kind_list):
                child = mk()
                node = UnOp(tok, uops[u], child)
                out = f.visit(node)
                inner = f.visit(child)
                n_un += 1
                if out[0] != uops[u].value:
                    rep.problem("brackets", "visit_UnOp does not start with the operator", out=repr(out))
                rest = out[1:]
                br = bool(rest) and rest[0] == "(" and rest[-1] == ")" and rest[1:-1] == inner
                spaced = bool(rest) and rest[0] == Separators.Space
                if not br and not (rest == inner or (spaced and rest[1:] == inner)):
                    rep.problem("brackets", "unexpected shape of visit_UnOp output", out=repr(out))
                for alt in deep_variants(kname):
                    out2 = f.visit(UnOp(tok, uops[u], alt))[1:]
                    br2 = bool(out2) and out2[0] == "(" and out2[-1] == ")" and out2[1:-1] == f.visit(alt)
                    if br2 != br:
                        rep.problem("brackets", "unary decision depends on more than (options, operator, child kind)",
                                    opt=opt, op=u, kind=kname)
                idx = (opt * 4 + ui) * 26 + ki
                if br:
                    un_bits |= 1 << idx
                if spaced:
                    un_space_bits |= 1 << idx
    rep.info["brackets"] = {"binary_entries": n_bin, "unary_entries": n_un}
    return f"""/-! GENERATED by harness/extract.py from /repo (tumfl/formatter.py visit_BinOp / visit_UnOp) - do not edit.
Bracket decisions as emitted by the real formatter, evaluated exhaustively:
{n_bin} binary entries (8 option sets x 21 operators x 2 sides x 26 child kinds),
{n_un} unary entries (8 option sets x 4 operators x 26 child kinds). -/
namespace Tumfl.Gen

def binBracketBits : Nat := 0x{bin_bits:x}
def unBracketBits : Nat := 0x{un_bits:x}
def unSpaceBits : Nat := 0x{un_space_bits:x}

end Tumfl.Gen
"""


def lchar(c: str) -> str:
    return f"Char.ofNat {ord(c)}"


def lstr(s: str) -> str:
    out = []
    for ch in s:
        if ch in '"\\':
            out.append("\\" + ch)
        elif 32 <= ord(ch) < 127:
            out.append(ch)
        else:
            out.append("\\u{%x}" % ord(ch))
    return '"' + "".join(out) + '"'


# --------------------------------------------------------------------------- lexer tables
def extract_lextables(rep: Report) -> str:
    import tumfl.lexer as L
    from tumfl.Token import TokenType

    def chars(xs) -> str:
        return "[" + ", ".join(lchar(c) for c in xs) + "]"

    plain = L.Lexer("", typed=False)
    typed = L.Lexer("", typed=True)
    kw_plain = dict(plain.keywords)
    kw_typed = dict(typed.keywords)
    extra = sorted(set(kw_typed) - set(kw_plain))
    if extra != ["as", "is"] or any(kw_typed[k] != v for k, v in kw_plain.items()):
        rep.problem("LexTables", "typed/untyped keyword tables differ by more than as/is", extra=extra)
    for name, val in (("NUMBER", L.NUMBER), ("HEX_NUMBER", L.HEX_NUMBER), ("LETTER", L.LETTER), ("ALPHANUMERIC", L.ALPHANUMERIC)):
        if any(len(c) != 1 for c in val):
            rep.problem("LexTables", f"{name} is not a list of single characters")
    kws = ", ".join(f"({lstr(k)}, {lstr(v.name)})" for k, v in sorted(kw_typed.items()))
    syms = ", ".join(f"({lstr(k)}, {lstr(v.name)})" for k, v in sorted(L.SYMBOLS.items()))
    esc = ", ".join(f"({lchar(k)}, {lchar(v)})" for k, v in L.ESCAPE_CODES.items())
    tts = ", ".join(f"({lstr(t.name)}, {lstr(t.value)})" for t in TokenType)
    rep.info["lextables"] = {"keywords": len(kw_typed), "symbols": len(L.SYMBOLS), "escapes": len(L.ESCAPE_CODES)}
    return f"""/-! GENERATED by harness/extract.py from /repo (tumfl/lexer.py, tumfl/Token.py) - do not edit. -/
namespace Tumfl.Gen

def whitespace : List Char := {chars(L.WHITESPACE)}
def number : List Char := {chars(L.NUMBER)}
def hexNumber : List Char := {chars(L.HEX_NUMBER)}
def letter : List Char := {chars(L.LETTER)}
def alphanumeric : List Char := {chars(L.ALPHANUMERIC)}
/-- ESCAPE_CODES: escape letter -> character -/
def escapeCodes : List (Char × Char) := [{esc}]
/-- keyword text -> TokenType member name, as seen by a `typed=True` lexer (`as`, `is` only when typed) -/
def keywords : List (String × String) := [{kws}]
/-- SYMBOLS: text -> TokenType member name -/
def symbols : List (String × String) := [{syms}]
/-- TokenType: member name -> value -/
def tokenTypes : List (String × String) := [{tts}]

end Tumfl.Gen
"""


# --------------------------------------------------------------------------- expression ladder (static read of parser.py)
def extract_ladder(rep: Report) -> str:
    """The expression ladder, read off the BEHAVIOUR of the real parser (so that a refactoring of parser.py that keeps the behaviour keeps the table):
    which token types are binary / unary operators (by parsing `x = a OP b` / `x = OP a`), which binary operators bind tighter than which and how each
    associates (by parsing `a o1 b o2 c` for every ordered pair), which bind tighter than a unary operator (`- a o b`), and the block-end token types
    (`return` directly followed by the token is accepted as an empty return list)."""
    import tumfl
    from tumfl.AST import BinOp, UnOp
    from tumfl.error import TumflError
    from tumfl.Token import TokenType

    def parse_exp(text: str):
        import contextlib
        import io
        with contextlib.redirect_stderr(io.StringIO()):
            try:
                ast = tumfl.parse("x = " + text)
            except TumflError:
                return None
            except RecursionError:
                return None
        st = ast.statements[0] if ast.statements else None
        es = getattr(st, "expressions", None)
        return es[0] if es and len(es) == 1 else None

    fixed = [t for t in TokenType if isinstance(t.value, str) and t.value and t.name not in ("NAME", "NUMBER", "STRING", "EOF")]
    bmap, umap = [], []
    for t in fixed:
        e = parse_exp(f"a {t.value} b")
        if isinstance(e, BinOp) and type(e.left).__name__ == "Name" and type(e.right).__name__ == "Name":
            bmap.append((t.name, e.op.value, t.value))
        e = parse_exp(f"{t.value} a")
        if isinstance(e, UnOp):
            umap.append((t.name, e.op.value, t.value))
    if not bmap or not umap:
        rep.problem("Ladder", "no binary or no unary operator found by probing the parser")
    ops = [sp for _, _, sp in bmap]
    sym = {sp: v for _, v, sp in bmap}

    def top(text: str):
        e = parse_exp(text)
        return e if isinstance(e, (BinOp, UnOp)) else None

    def is_atom(e) -> bool:
        return type(e).__name__ == "Name"

    # left[o1][o2]: `a o1 b o2 c` groups as (a o1 b) o2 c
    left = {}
    for o1 in ops:
        for o2 in ops:
            e = top(f"a {o1} b {o2} c")
            if not isinstance(e, BinOp):
                rep.problem("Ladder", f"`a {o1} b {o2} c` does not parse to a binary operation")
                left[(o1, o2)] = True
                continue
            left[(o1, o2)] = not is_atom(e.left)
    # o1 binds tighter than o2 iff it wins on both sides
    tighter = {(o1, o2): left[(o1, o2)] and not left[(o2, o1)] for o1 in ops for o2 in ops if o1 != o2}
    same = lambda x, y: x == y or (not tighter[(x, y)] and not tighter[(y, x)])  # noqa: E731
    classes: list[list[str]] = []
    for o in ops:
        for c in classes:
            if same(o, c[0]):
                c.append(o)
                break
        else:
            classes.append([o])
    for c in classes:
        for x in c:
            for y in c:
                if not same(x, y):
                    rep.problem("Ladder", "`binds as tight as` is not transitive: the precedence relation of the parser is not a ladder", ops=[x, y])
    import functools
    classes.sort(key=functools.cmp_to_key(lambda c1, c2: -1 if tighter[(c2[0], c1[0])] else (1 if tighter[(c1[0], c2[0])] else 0)))
    for i, c1 in enumerate(classes):
        for c2 in classes[i + 1:]:
            for x in c1:
                for y in c2:
                    if not tighter[(y, x)]:
                        rep.problem("Ladder", "levels are not totally ordered", looser=x, tighter=y)
    levels = []
    for c in classes:
        rights = {not left[(o, o)] for o in c}
        mixed = {left[(x, y)] for x in c for y in c}
        if len(rights) != 1 or len(mixed) != 1:
            rep.problem("Ladder", "operators of one level associate differently", level=c)
        levels.append((c, rights.pop()))
    # operators that bind tighter than the unary operators
    un_sp = [sp for _, _, sp in umap]
    pow_ops = []
    for o in ops:
        kinds = set()
        for u in un_sp:
            e = top(f"{u} a {o} b")
            kinds.add(isinstance(e, UnOp))
        if len(kinds) != 1:
            rep.problem("Ladder", f"unary operators disagree about {o}")
        if kinds == {True}:
            pow_ops.append(o)
    bin_levels = [(c, r) for c, r in levels if not all(o in pow_ops for o in c)]
    pow_level = [(c, r) for c, r in levels if all(o in pow_ops for o in c)]
    if len(pow_level) != 1 or not pow_level[0][1] or (levels and levels[-1] != pow_level[0]):
        rep.problem("Ladder", "the operators binding tighter than unary operators are not one right-associative level at the top", pow=pow_ops)
    # the right operand of a power is a unary expression (2 ^ - 3), the left one an atom (handled by the table above)
    for o in pow_ops:
        for u in un_sp:
            e = top(f"a {o} {u} b")
            if not (isinstance(e, BinOp) and isinstance(e.right, UnOp)):
                rep.problem("Ladder", f"`a {o} {u} b` is not read as a {o} ({u} b)")
    # block end types: `return` directly followed by the token is an empty return list
    import contextlib
    import io
    block_end = []
    for t in [tt for tt in TokenType]:
        text = {"EOF": ""}.get(t.name, t.value if isinstance(t.value, str) else None)
        if t.name in ("NAME", "NUMBER", "STRING"):
            continue
        if text is None:
            continue
        if _return_list_is_empty_before(t, text):
            block_end.append(t.name)
    static_be = None
    try:
        from tumfl.parser import Parser
        cand = [v for k, v in vars(Parser).items() if "BLOCK_END" in k and hasattr(v, "__iter__")]
        if cand:
            static_be = sorted({x.name for x in cand[0]}, key=[t.name for t in TokenType].index)
    except Exception:  # noqa: BLE001
        pass
    if static_be is not None and static_be != block_end:
        rep.info.setdefault("ladder_notes", []).append(f"class attribute *BLOCK_END* = {static_be} differs from probed {block_end}")
    lv = ", ".join("([" + ", ".join(lstr(sym[o]) for o in c) + "], " + ("true" if r else "false") + ")" for c, r in bin_levels)
    pw = ", ".join(lstr(sym[o]) for o in pow_ops)
    bt = ", ".join(f"({lstr(k)}, {lstr(v)})" for k, v, _ in bmap)
    ut = ", ".join(f"({lstr(k)}, {lstr(v)})" for k, v, _ in umap)
    be = ", ".join(lstr(n) for n in block_end)
    rep.info["ladder"] = {"levels": [(c, r) for c, r in levels], "unary": un_sp, "block_end": block_end}
    return f"""/-! GENERATED by harness/extract.py from /repo by PROBING the real parser (tumfl.parse on `a o1 b o2 c`, `OP a`, `- a o b`, `return` + token) - do not edit. -/
namespace Tumfl.Gen

/-- binary levels from the loosest to the one below the unary operators: (operator symbols, right associative) -/
def ladderLevels : List (List String × Bool) := [{lv}]
/-- operators binding tighter than the unary operators (right associative; left operand an atom, right operand a unary expression) -/
def powOps : List String := [{pw}]
/-- token type member name -> binary operator symbol (what `x = a OP b` parses to) -/
def binaryTokens : List (String × String) := [{bt}]
/-- token type member name -> unary operator symbol (what `x = OP a` parses to) -/
def unaryTokens : List (String × String) := [{ut}]
/-- token types in front of which `return` takes an empty expression list -/
def blockEndTypes : List String := [{be}]

end Tumfl.Gen
"""


def _return_list_is_empty_before(t, text) -> bool:
    """does `return` followed by this token take an empty return list?  Decided on the parser's own behaviour: parse a block `do return <tok>` with the
    block parser and look at what it built before it stopped or failed."""
    import contextlib
    import io
    from tumfl.error import TumflError
    from tumfl.parser import Parser
    src = "return" if t.name == "EOF" else "return " + text
    with contextlib.redirect_stderr(io.StringIO()):
        try:
            p_ = Parser(src)
            blk = p_.parse_chunk()
        except TumflError:
            return False
        except Exception:  # noqa: BLE001
            return False
    # accepted as far as parse_chunk is concerned: the return list must be empty and the token must still be the current one
    return blk.returns == [] and (p_.current_token.type == t)


# --------------------------------------------------------------------------- formatter tables
def extract_fmttables(rep: Report) -> str:
    import tumfl.formatter as F
    esc = ", ".join(f"({lchar(k)}, {lchar(v)})" for k, v in F.ESCAPE_CHARACTERS.items())
    spaces = [c for c in range(0x110000) if not (0xD800 <= c <= 0xDFFF) and chr(c).isspace()]
    alnum = [c for c in range(128) if chr(c).isalnum()]
    mb = ", ".join(f"({lchar(k)}, {lchar(v)})" for k, v in F.MATCHING_BRACKETS.items())

    def sd(cls) -> str:
        def v(x):
            if isinstance(x, bool):
                return "true" if x else "false"
            if isinstance(x, int):
                return str(x)
            return lstr(x) + ".toList"
        fields = ["STATEMENT_SEPARATOR", "INDENTATION", "ARGUMENT_SEPARATOR", "INCLUDE_COMMENTS", "COMMENT_SEP", "USE_SINGLE_QUOTE",
                  "USE_CALL_SHORTHAND", "REMOVE_UNNECESSARY_CHARS", "ADD_ALL_BRACKETS", "ADD_CLOSE_BRACKETS", "SPACE_IN_TABLE",
                  "NEWLINE_LIMIT", "LINE_WIDTH", "BLOCK_SPACER", "KEEP_SEMICOLON"]
        return "[" + ", ".join(f"({lstr(f)}, {lstr(repr(getattr(cls, f)))})" for f in fields) + "]"

    return f"""/-! GENERATED by harness/extract.py from /repo (tumfl/formatter.py, the running interpreter's str predicates) - do not edit. -/
namespace Tumfl.Gen

/-- ESCAPE_CHARACTERS: character -> escape letter -/
def escapeCharacters : List (Char × Char) := [{esc}]
/-- code points for which this interpreter's `str.isspace()` is true -/
def pyIsSpace : List Nat := {spaces}
/-- ASCII code points for which `str.isalnum()` is true -/
def pyIsAlnumAscii : List Nat := {alnum}
/-- MATCHING_BRACKETS: closing -> opening -/
def matchingBrackets : List (Char × Char) := [{mb}]
/-- `string.ascii_letters`, `string.digits` -/
def asciiLetters : List Char := [{", ".join(lchar(c) for c in __import__("string").ascii_letters)}]
def digits : List Char := [{", ".join(lchar(c) for c in __import__("string").digits)}]
/-- attribute values of the two built-in styles, as `repr` -/
def defaultStyleRepr : List (String × String) := {sd(F.FormattingStyle)}
def minifiedStyleRepr : List (String × String) := {sd(F.MinifiedStyle)}

end Tumfl.Gen
"""


# --------------------------------------------------------------------------- AST schema (introspection; C17 C18)
SCHEMA_SAMPLE = """
local a <const>, b <close> = 1, nil
local c
x, y.z, t[1] = f(1, 'two', {3; k = 4, [5] = 6}), a:m(...), function(p, ...) return p end
::lbl:: goto lbl
do break end
while not a do a = -a ^ 2 .. 'x' end
repeat local q = #t until q
if a then b() elseif c then d() else e() end
if a then end
for i = 1, 2, 3 do end
for i = 1, 2 do end
for k, v in pairs(t) do end
function n.a.b:c(p, ...) return end
function g() end
local function h(...) return ..., nil, true, false, 0x1p4, 1.5e3 end
f'str' ; g{1}
o:m 'x'
return a, (b)
"""


def compared_attributes(n) -> list[str]:
    """which attributes `==` looks at, found by BEHAVIOUR: an attribute is compared iff giving a shallow copy of the node a fresh, incomparable value
    for it makes the copy unequal to the node (robust against renaming the private scan method of ASTNode)"""
    import copy

    class Fresh:
        def __eq__(self, other):
            return False
        __hash__ = object.__hash__

    out = []
    for k in dir(n):
        if k.startswith("__"):
            continue
        try:
            v = getattr(n, k)
        except Exception:  # noqa: BLE001
            continue
        if callable(v):
            continue
        b = copy.copy(n)
        try:
            setattr(b, k, Fresh())
        except Exception:  # noqa: BLE001
            continue       # read-only property: cannot differ between two nodes independently of the stored attributes
        try:
            same = (n == b)
        except Exception:  # noqa: BLE001
            same = False
        if not same:
            out.append(k)
    return out


def extract_schema(rep: Report) -> str:
    import tumfl
    from tumfl.AST.ASTNode import ASTNode
    from tumfl.AST.Statement.LocalAssign import AttributedName
    from tumfl.basic_walker import NoneWalker

    ast = tumfl.parse(SCHEMA_SAMPLE)
    nodes: list[ASTNode] = []

    def kids(n):
        out = []
        for k, v in vars(n).items():
            if k in ("token", "parent_class", "file_name", "comment", "attributes"):
                continue
            if isinstance(v, ASTNode):
                out.append((k, "node", [v]))
            elif isinstance(v, list):
                if any(isinstance(x, AttributedName) for x in v):
                    out.append((k, "wrapperlist", [c for x in v for c in (x.name, x.attribute) if c is not None]))
                else:
                    out.append((k, "nodelist", [x for x in v if isinstance(x, ASTNode)]))
            elif v is None:
                out.append((k, "none", []))
            else:
                out.append((k, "atom", []))
        return out

    stack = [ast]
    while stack:
        n = stack.pop()
        nodes.append(n)
        for _, _, cs in kids(n):
            stack.extend(cs)
    by_cls: dict[str, dict] = {}
    for n in nodes:
        cls = type(n).__name__
        d = by_cls.setdefault(cls, {"slots": {}, "compared": None, "linked": {}, "walked": {}, "replaced": {}, "override": "parent" in type(n).__dict__})
        compared = sorted(compared_attributes(n))
        if d["compared"] is None:
            d["compared"] = compared
        elif d["compared"] != compared:
            rep.problem("Schema", f"instances of {cls} yield different attribute lists from __dir", a=d["compared"], b=compared)
        # which children does NoneWalker.visit_<cls> visit directly, and how often
        seen: list[int] = []

        class Probe(NoneWalker):
            def visit(self, node):  # record, do not recurse
                seen.append(id(node))

        w = Probe()
        getattr(NoneWalker, "visit_" + cls)(w, n)
        for k, kind, cs in kids(n):
            kinds = d["slots"].setdefault(k, set())
            kinds.add(kind)
            if cs:
                linked = all(c.parent_class is n for c in cs)
                d["linked"][k] = d["linked"].get(k, True) and linked
                counts = [seen.count(id(c)) for c in cs]
                d["walked"][k] = d["walked"].get(k, True) and all(c == 1 for c in counts)
                # replace_child: every child of the slot, one at a time, must be substituted at its position and nothing else may change
                ok_rep = True
                for c in cs:
                    before = [(kk, [id(x) for x in cc]) for kk, _, cc in kids(n)]
                    sentinel = tumfl.AST.Name(c.token, "sentinel__")
                    try:
                        n.replace_child(c, sentinel)
                        after = [(kk, [id(x) for x in cc]) for kk, _, cc in kids(n)]
                        want = [(kk, [id(sentinel) if i == id(c) else i for i in ids]) for kk, ids in before]
                        ok_rep = ok_rep and after == want
                        n.replace_child(sentinel, c)
                        ok_rep = ok_rep and [(kk, [id(x) for x in cc]) for kk, _, cc in kids(n)] == before
                    except Exception:  # noqa: BLE001
                        ok_rep = False
                d["replaced"][k] = d["replaced"].get(k, True) and ok_rep
        extra = [i for i in seen if i not in {id(c) for _, _, cs in kids(n) for c in cs}]
        if extra:
            rep.problem("Schema", f"NoneWalker.visit_{cls} visits something that is not a child")
    import tumfl.AST as A
    expected = sorted(c.__name__ for c in vars(A).values() if isinstance(c, type) and issubclass(c, ASTNode)
                      and not getattr(c, "__abstractmethods__", None) and c.__name__ not in ("ASTNode", "Expression", "Statement", "Variable", "TableField", "BaseFunctionDefinition"))
    missing = [c for c in expected if c not in by_cls]
    if missing:
        rep.problem("Schema", "the sample program does not exercise every node class", missing=missing)

    def kind_of(ks: set) -> str:
        ks = set(ks)
        if ks <= {"node"}:
            return "node"
        if ks <= {"node", "none"}:
            return "optnode"
        if ks <= {"nodelist"}:
            return "nodelist"
        if ks <= {"nodelist", "none"}:
            return "optnodelist"
        if ks <= {"wrapperlist"}:
            return "wrapperlist"
        if ks <= {"atom", "none"}:
            return "atom"
        return "mixed:" + "+".join(sorted(ks))

    rows = []
    for cls in sorted(by_cls):
        d = by_cls[cls]
        slots = ", ".join(f"({lstr(k)}, {lstr(kind_of(v))})" for k, v in sorted(d["slots"].items()))
        compared = ", ".join(lstr(x) for x in d["compared"])
        linked = ", ".join(lstr(k) for k, v in sorted(d["linked"].items()) if v)
        walked = ", ".join(lstr(k) for k, v in sorted(d["walked"].items()) if v)
        exercised = ", ".join(lstr(k) for k in sorted(d["linked"]))
        replaced = ", ".join(lstr(k) for k, v in sorted(d["replaced"].items()) if v)
        rows.append(f"  {{ cls := {lstr(cls)}, slots := [{slots}], compared := [{compared}], linked := [{linked}], walked := [{walked}], exercised := [{exercised}], replaced := [{replaced}] }}")
    rep.info["schema"] = {"classes": len(by_cls), "nodes": len(nodes)}
    return """/-! GENERATED by harness/extract.py from /repo by introspection of a sample AST covering every node class - do not edit.
For each class: the structural slots found by reflection (`vars`), the attributes `ASTNode.__dir` yields that are not callable (what `__eq__`
compares and `parent()` scans), the child slots whose children carry a correct parent link after `parse`, the child slots whose children
`NoneWalker.visit_<class>` visits exactly once, the child slots that held at least one child in the sample, and the child slots in which
`replace_child(child, new)` substituted exactly that child (at its position, nothing else changed, and back again) for every child tried. -/
namespace Tumfl.Gen

structure ClassSchema where
  cls : String
  slots : List (String × String)
  compared : List String
  linked : List String
  walked : List String
  exercised : List String
  replaced : List String

def schema : List ClassSchema := [
""" + ",\n".join(rows) + """
]

end Tumfl.Gen
"""


# --------------------------------------------------------------------------- shared state scan (static; C14)
MUTATORS = {"append", "extend", "insert", "pop", "remove", "clear", "sort", "reverse", "update", "setdefault", "popitem", "add", "discard"}


def extract_sharedstate(rep: Report) -> str:
    import ast as pyast

    pkg = REPO / "tumfl"
    files = sorted(pkg.rglob("*.py"))
    shared: list[tuple[str, str, str]] = []          # (module, name, kind)
    funcs: dict[str, dict] = {}                       # qualified function name -> {"calls": set, "writes": [...], "argmut": [...]}
    mutable_ctor = (pyast.Dict, pyast.List, pyast.Set, pyast.DictComp, pyast.ListComp, pyast.SetComp)

    def is_mutable_value(v) -> bool:
        if isinstance(v, mutable_ctor):
            return True
        return isinstance(v, pyast.Call) and isinstance(v.func, pyast.Name) and v.func.id in ("dict", "list", "set", "defaultdict", "OrderedDict")

    def root_name(e):
        while isinstance(e, (pyast.Attribute, pyast.Subscript)):
            e = e.value
        return e.id if isinstance(e, pyast.Name) else None

    for f in files:
        mod = ".".join(f.relative_to(REPO).with_suffix("").parts)
        tree = pyast.parse(f.read_text())
        module_names = set()
        class_names = {c.name for c in pyast.walk(tree) if isinstance(c, pyast.ClassDef)}
        for node in tree.body:
            targets = []
            if isinstance(node, pyast.Assign):
                targets = [(t, node.value) for t in node.targets]
            elif isinstance(node, pyast.AnnAssign) and node.value is not None:
                targets = [(node.target, node.value)]
            for t, v in targets:
                if isinstance(t, pyast.Name) and is_mutable_value(v):
                    shared.append((mod, t.id, "module-level " + type(v).__name__))
                    module_names.add(t.id)
            if isinstance(node, pyast.ClassDef) and not any(isinstance(b, pyast.Name) and b.id == "Enum" for b in node.bases):
                for b in node.body:
                    tv = []
                    if isinstance(b, pyast.Assign):
                        tv = [(t, b.value) for t in b.targets]
                    elif isinstance(b, pyast.AnnAssign) and b.value is not None:
                        tv = [(b.target, b.value)]
                    for t, v in tv:
                        if isinstance(t, pyast.Name) and is_mutable_value(v):
                            shared.append((mod, f"{node.name}.{t.id}", "class-level " + type(v).__name__))
        # class-level mutable objects that an instance reaches as self.X: shared between all instances unless __init__ gives every instance its own
        class_mut: dict[str, set[str]] = {}
        rebound: set[str] = set()
        owner: dict[int, str] = {}
        for c in pyast.walk(tree):
            if not isinstance(c, pyast.ClassDef):
                continue
            for b in c.body:
                tv = [(t, b.value) for t in b.targets] if isinstance(b, pyast.Assign) else [(b.target, b.value)] if isinstance(b, pyast.AnnAssign) and b.value is not None else []
                for t, v in tv:
                    if isinstance(t, pyast.Name) and is_mutable_value(v):
                        class_mut.setdefault(t.id, set()).add(c.name)
                if isinstance(b, (pyast.FunctionDef, pyast.AsyncFunctionDef)):
                    owner[id(b)] = c.name
                    if b.name == "__init__":
                        for n in pyast.walk(b):
                            ts = n.targets if isinstance(n, pyast.Assign) else [n.target] if isinstance(n, pyast.AnnAssign) and n.value is not None else []
                            for t in ts:
                                if isinstance(t, pyast.Attribute) and isinstance(t.value, pyast.Name) and t.value.id == "self":
                                    rebound.add(t.attr)

        def shared_self_attr(e):
            """e is self.X(...) / self.X[...] with X a class-level mutable object that no __init__ rebinds: the name X, else None"""
            while isinstance(e, pyast.Subscript):
                e = e.value
            if isinstance(e, pyast.Attribute) and isinstance(e.value, pyast.Name) and e.value.id == "self" and e.attr in class_mut and e.attr not in rebound:
                return e.attr
            return None

        # functions
        for node in pyast.walk(tree):
            if not isinstance(node, (pyast.FunctionDef, pyast.AsyncFunctionDef)):
                continue
            q = f"{mod}:{node.name}"
            d = funcs.setdefault(q, {"calls": set(), "writes": [], "argmut": [], "mod": mod, "name": node.name})
            for a in node.args.defaults + node.args.kw_defaults:
                if a is not None and is_mutable_value(a):
                    shared.append((mod, f"{node.name}(default)", "mutable default argument"))
            params = {a.arg for a in node.args.args + node.args.kwonlyargs}
            for dec in node.decorator_list:
                if "cache" in pyast.unparse(dec):
                    d["writes"].append((f"@{pyast.unparse(dec)[:40]} (memoised results are shared state)", node.lineno))
            for n in pyast.walk(node):
                if isinstance(n, pyast.Attribute) and n.attr == "__dict__" and root_name(n) != "self":
                    d["writes"].append((pyast.unparse(n)[:50], n.lineno))
                if isinstance(n, pyast.Global):
                    d["writes"].append(("global " + ",".join(n.names), n.lineno))
                if isinstance(n, pyast.Call):
                    fn = n.func
                    if isinstance(fn, pyast.Name):
                        d["calls"].add(fn.id)
                        # setattr/delattr on anything but self writes to an argument, a class or a module: shared state
                        # setattr/delattr on a PARAMETER other than self (an argument object such as the style or the tree), on a class or on a module-level
                        # name writes shared state; on a local variable (an element of one of self's own lists, say) it does not
                        if fn.id in ("setattr", "delattr") and n.args:
                            r0 = root_name(n.args[0])
                            if r0 != "self" and (r0 in params or r0 in module_names or r0 in class_names or (r0 and r0[:1].isupper())):
                                d["writes"].append((f"{fn.id}({pyast.unparse(n.args[0])[:40]}, ...)", n.lineno))
                        if fn.id in ("globals", "vars", "locals"):
                            d["writes"].append((f"{fn.id}() used", n.lineno))
                    elif isinstance(fn, pyast.Attribute):
                        d["calls"].add(fn.attr)
                        if fn.attr in MUTATORS:
                            r = root_name(fn.value)
                            if r in module_names:
                                d["writes"].append((f"{r}.{fn.attr}()", n.lineno))
                            x = shared_self_attr(fn.value)
                            if x is not None:
                                d["writes"].append((f"self.{x}.{fn.attr}() on the class-level object {'/'.join(sorted(class_mut[x]))}.{x}", n.lineno))
                            # a mutating method on an attribute chain (node.statements.append, style.X.update ...): mutates an argument
                            if isinstance(fn.value, (pyast.Attribute, pyast.Subscript)) and r not in ("self",) and mod.endswith("formatter"):
                                d["argmut"].append((pyast.unparse(fn)[:60], n.lineno))
                stores = []
                if isinstance(n, pyast.Assign):
                    stores = n.targets
                elif isinstance(n, (pyast.AugAssign, pyast.AnnAssign)):
                    stores = [n.target]
                elif isinstance(n, pyast.Delete):
                    stores = n.targets
                for t in stores:
                    if isinstance(t, (pyast.Subscript, pyast.Attribute)):
                        r = root_name(t)
                        if r in module_names:
                            d["writes"].append((pyast.unparse(t)[:60], n.lineno))
                        x = shared_self_attr(t) if isinstance(t, pyast.Subscript) or isinstance(n, pyast.AugAssign) else None
                        if x is not None:
                            d["writes"].append((f"{pyast.unparse(t)[:40]} stored into the class-level object {'/'.join(sorted(class_mut[x]))}.{x}", n.lineno))
                        if isinstance(t, pyast.Attribute) and r != "self" and mod.endswith("formatter"):
                            d["argmut"].append((pyast.unparse(t)[:60] + " =", n.lineno))
    # reachability from the API entry points by called names
    by_name: dict[str, list[str]] = {}
    for q, d in funcs.items():
        by_name.setdefault(d["name"], []).append(q)
    entry_names = ["parse", "format", "resolve_recursive", "__init__", "get_next_token", "parse_chunk", "visit"]
    seen: set[str] = set()
    work = [q for n in entry_names for q in by_name.get(n, [])]
    while work:
        q = work.pop()
        if q in seen:
            continue
        seen.add(q)
        for c in funcs[q]["calls"]:
            for q2 in by_name.get(c, []):
                if q2 not in seen:
                    work.append(q2)
            # visit_* dispatch by name
        if funcs[q]["name"] == "visit":
            for n2, qs in by_name.items():
                if n2.startswith("visit_"):
                    work.extend(qs)
    writes = sorted((q, w, ln) for q in seen for (w, ln) in funcs[q]["writes"])
    argmut = sorted((q, w, ln) for q in seen for (w, ln) in funcs[q]["argmut"])
    unreach = sorted((q, w, ln) for q in funcs if q not in seen for (w, ln) in funcs[q]["writes"])
    rep.info["sharedstate"] = {"shared_objects": len(shared), "reachable_functions": len(seen), "functions": len(funcs),
                               "writes_in_unreachable_functions": [f"{q} {w} line {ln}" for q, w, ln in unreach]}

    def tl(rows):
        return "[" + ", ".join(f"({lstr(a)}, {lstr(b)}, {c})" for a, b, c in rows) + "]"

    return f"""/-! GENERATED by harness/extract.py: static scan of /repo/tumfl for shared mutable state - do not edit.
`sharedObjects`: module-level / class-level mutable objects and mutable default arguments.
`sharedWrites`: stores to, deletions from and mutating method calls on module-level mutable objects, `global` statements, `setattr`/`delattr` on anything but `self`,
uses of `globals()`/`vars()`/`__dict__` and caching decorators, in functions reachable
(by called names) from the API entry points parse / format / resolve_recursive / the Lexer, Parser and Formatter methods.
`formatArgWrites`: in formatter.py, attribute stores on anything but `self` and mutating method calls on attribute chains (they would modify the AST or the style). -/
namespace Tumfl.Gen

def sharedObjects : List (String × String × String) := [{", ".join(f"({lstr(a)}, {lstr(b)}, {lstr(c)})" for a, b, c in sorted(set(shared)))}]
def sharedWrites : List (String × String × Nat) := {tl(writes)}
def formatArgWrites : List (String × String × Nat) := {tl(argmut)}

end Tumfl.Gen
"""


EXTRACTORS = {
    "Brackets": extract_brackets,
    "SharedState": extract_sharedstate,
    "Schema": extract_schema,
    "FmtTables": extract_fmttables,
    "Ladder": extract_ladder,
    "LexTables": extract_lextables,
}


def main() -> int:
    rep = Report()
    changed = []
    for name, fn in EXTRACTORS.items():
        try:
            text = fn(rep)
        except SystemExit:
            raise
        except Exception as e:  # the code no longer has the shape the extractor needs
            import traceback
            rep.problem(name, f"extractor crashed: {type(e).__name__}: {e}", trace=traceback.format_exc()[-1500:])
            continue
        if write_if_changed(GEN / f"{name}.lean", text):
            changed.append(name)
    print(json.dumps({"problems": rep.problems, "changed": changed, "info": rep.info}))
    return 0


if __name__ == "__main__":
    sys.exit(main())
