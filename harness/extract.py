"""T1: regenerate Tumfl/Gen/*.lean from /repo's working tree.

Every finite decision function of the code that a theorem depends on is evaluated over its whole
domain (or read from the source) and written out as Lean data.  Each extractor also tests its own
abstraction: if the decision turns out to depend on more than the probed features, the extractor
reports it and the tie counts as broken.

Run in a fresh interpreter:  python extract.py  ->  prints a JSON report, writes the Lean files.
"""
from __future__ import annotations

import itertools
import json
import sys
from pathlib import Path

sys.path.insert(0, str(Path(__file__).resolve().parent))
from common import LEAN, REPO  # noqa: E402

GEN = LEAN / "Tumfl" / "Gen"

BOPS = ["or", "and", "lt", "gt", "le", "ge", "ne", "eq", "bor", "bxor", "band", "shl", "shr",
        "concat", "add", "sub", "mul", "div", "idiv", "mod", "pow"]
BOP_PY = {"OR": "or", "AND": "and", "LESS_THAN": "lt", "GREATER_THAN": "gt", "LESS_EQUALS": "le",
          "GREATER_EQUALS": "ge", "NOT_EQUALS": "ne", "EQUALS": "eq", "BIT_OR": "bor", "BIT_XOR": "bxor",
          "BIT_AND": "band", "BIT_SHIFT_LEFT": "shl", "BIT_SHIFT_RIGHT": "shr", "CONCAT": "concat",
          "PLUS": "add", "MINUS": "sub", "MULT": "mul", "DIVIDE": "div", "INTEGER_DIVISION": "idiv",
          "MODULO": "mod", "EXPONENT": "pow"}
UOPS = ["neg", "len", "bnot", "not"]
UOP_PY = {"MINUS": "neg", "HASH": "len", "BIT_XOR": "bnot", "NOT": "not"}


def write_if_changed(path: Path, text: str) -> bool:
    path.parent.mkdir(parents=True, exist_ok=True)
    if path.exists() and path.read_text() == text:
        return False
    path.write_text(text)
    return True


class Report:
    def __init__(self) -> None:
        self.problems: list[dict] = []
        self.info: dict = {}

    def problem(self, extractor: str, what: str, **kw) -> None:
        if len(self.problems) < 50:
            self.problems.append({"extractor": extractor, "what": what, **kw})


# --------------------------------------------------------------------------- brackets (C11)
def extract_brackets(rep: Report) -> str:
    from tumfl.AST import (BinaryOperand, BinOp, Boolean, ExpFunctionCall, Index, Name, Nil, Number, String,
                           Table, UnaryOperand, UnOp, Vararg)
    from tumfl.formatter import Formatter, FormattingStyle, Separators
    from tumfl.Token import Token, TokenType

    tok = Token(TokenType.NAME, "a", 1, 1)
    bops = {BOP_PY[o.name]: o for o in BinaryOperand}
    uops = {UOP_PY[o.name]: o for o in UnaryOperand}
    if sorted(bops) != sorted(BOPS) or sorted(uops) != sorted(UOPS):
        rep.problem("brackets", "operator enumeration changed", binary=sorted(bops), unary=sorted(uops))
        raise SystemExit(3)

    def atom(i: int = 0):
        return Name(tok, "a")

    def atoms_variety():
        return [Name(tok, "b"), Number(tok, False, "1"), String(tok, "s"), Table(tok, []), Vararg(tok),
                Nil(tok), Boolean(tok, True), ExpFunctionCall(tok, Name(tok, "f"), []),
                Index(tok, Name(tok, "t"), Name(tok, "k"))]

    def kinds():
        ks = [("atom", lambda: atom())]
        for u in UOPS:
            ks.append((f"un {u}", (lambda u=u: UnOp(tok, uops[u], atom()))))
        for o in BOPS:
            ks.append((f"bin {o}", (lambda o=o: BinOp(tok, bops[o], atom(), atom()))))
        return ks

    def deep_variants(kname: str):
        """same kind, different grandchildren - the decision must not change"""
        if kname.startswith("un "):
            u = kname.split()[1]
            return [UnOp(tok, uops[u], BinOp(tok, bops["pow"], atom(), atom())),
                    UnOp(tok, uops[u], UnOp(tok, uops["not"], atom()))] + [UnOp(tok, uops[u], v) for v in atoms_variety()]
        if kname.startswith("bin "):
            o = kname.split()[1]
            return [BinOp(tok, bops[o], BinOp(tok, bops["or"], atom(), atom()), UnOp(tok, uops["neg"], atom())),
                    BinOp(tok, bops[o], BinOp(tok, bops["pow"], atom(), atom()), BinOp(tok, bops["concat"], atom(), atom())),
                    BinOp(tok, bops[o], Number(tok, False, "1"), String(tok, "s")), BinOp(tok, bops[o], Table(tok, []), Vararg(tok))]
        return atoms_variety()

    bin_bits = 0
    un_bits = 0
    un_space_bits = 0
    n_bin = n_un = 0
    kind_list = kinds()
    for allb, close, ruc in itertools.product([False, True], repeat=3):
        opt = int(allb) * 4 + int(close) * 2 + int(ruc)
        S = type("S", (FormattingStyle,), dict(ADD_ALL_BRACKETS=allb, ADD_CLOSE_BRACKETS=close,
                                                REMOVE_UNNECESSARY_CHARS=ruc))
        f = Formatter(S)

        def child_bracketed(node, side: str, child) -> bool:
            """Decide from the emitted pieces whether `child` was put in brackets."""
            out = f.visit(node)
            lin, rin = f.visit(node.left), f.visit(node.right)
            mid = [Separators.Space, node.op.value, Separators.Space]
            hits = set()
            for lb in (False, True):
                for rb in (False, True):
                    cand = (["(", *lin, ")"] if lb else lin) + mid + (["(", *rin, ")"] if rb else rin)
                    if cand == out:
                        hits.add(lb if side == "L" else rb)
            if len(hits) != 1:
                rep.problem("brackets", "unexpected shape of visit_BinOp output", out=repr(out)[:300])
                return True
            return hits.pop()

        for oi, o in enumerate(BOPS):
            for left in (0, 1):
                for ki, (kname, mk) in enumerate(kind_list):
                    child = mk()
                    node = BinOp(tok, bops[o], child, atom()) if left else BinOp(tok, bops[o], atom(), child)
                    v = child_bracketed(node, "L" if left else "R", child)
                    n_bin += 1
                    # self-test: other operand and grandchildren are irrelevant
                    for alt in deep_variants(kname):
                        other = BinOp(tok, bops["or"], atom(), atom())
                        node2 = BinOp(tok, bops[o], alt, other) if left else BinOp(tok, bops[o], other, alt)
                        if child_bracketed(node2, "L" if left else "R", alt) != v:
                            rep.problem("brackets", "decision depends on more than (options, operator, side, child kind)",
                                        opt=opt, op=o, left=left, kind=kname)
                    if v:
                        bin_bits |= 1 << (((opt * 21 + oi) * 2 + left) * 26 + ki)
        for ui, u in enumerate(UOPS):
            for ki, (kname, mk) in enumerate(kind_list):
                child = mk()
                node = UnOp(tok, uops[u], child)
                out = f.visit(node)
                inner = f.visit(child)
                n_un += 1
                if out[0] != uops[u].value:
                    rep.problem("brackets", "visit_UnOp does not start with the operator", out=repr(out))
                rest = out[1:]
                br = bool(rest) and rest[0] == "(" and rest[-1] == ")" and rest[1:-1] == inner
                spaced = bool(rest) and rest[0] == Separators.Space
                if not br and not (rest == inner or (spaced and rest[1:] == inner)):
                    rep.problem("brackets", "unexpected shape of visit_UnOp output", out=repr(out))
                for alt in deep_variants(kname):
                    out2 = f.visit(UnOp(tok, uops[u], alt))[1:]
                    br2 = bool(out2) and out2[0] == "(" and out2[-1] == ")" and out2[1:-1] == f.visit(alt)
                    if br2 != br:
                        rep.problem("brackets", "unary decision depends on more than (options, operator, child kind)",
                                    opt=opt, op=u, kind=kname)
                idx = (opt * 4 + ui) * 26 + ki
                if br:
                    un_bits |= 1 << idx
                if spaced:
                    un_space_bits |= 1 << idx
    rep.info["brackets"] = {"binary_entries": n_bin, "unary_entries": n_un}
    return f"""/-! GENERATED by harness/extract.py from /repo (tumfl/formatter.py visit_BinOp / visit_UnOp) - do not edit.
Bracket decisions as emitted by the real formatter, evaluated exhaustively:
{n_bin} binary entries (8 option sets x 21 operators x 2 sides x 26 child kinds),
{n_un} unary entries (8 option sets x 4 operators x 26 child kinds). -/
namespace Tumfl.Gen

def binBracketBits : Nat := 0x{bin_bits:x}
def unBracketBits : Nat := 0x{un_bits:x}
def unSpaceBits : Nat := 0x{un_space_bits:x}

end Tumfl.Gen
"""


def lchar(c: str) -> str:
    return f"Char.ofNat {ord(c)}"


def lstr(s: str) -> str:
    out = []
    for ch in s:
        if ch in '"\\':
            out.append("\\" + ch)
        elif 32 <= ord(ch) < 127:
            out.append(ch)
        else:
            out.append("\\u{%x}" % ord(ch))
    return '"' + "".join(out) + '"'


# --------------------------------------------------------------------------- lexer tables
def extract_lextables(rep: Report) -> str:
    import tumfl.lexer as L
    from tumfl.Token import TokenType

    def chars(xs) -> str:
        return "[" + ", ".join(lchar(c) for c in xs) + "]"

    plain = L.Lexer("", typed=False)
    typed = L.Lexer("", typed=True)
    kw_plain = dict(plain.keywords)
    kw_typed = dict(typed.keywords)
    extra = sorted(set(kw_typed) - set(kw_plain))
    if extra != ["as", "is"] or any(kw_typed[k] != v for k, v in kw_plain.items()):
        rep.problem("LexTables", "typed/untyped keyword tables differ by more than as/is", extra=extra)
    for name, val in (("NUMBER", L.NUMBER), ("HEX_NUMBER", L.HEX_NUMBER), ("LETTER", L.LETTER), ("ALPHANUMERIC", L.ALPHANUMERIC)):
        if any(len(c) != 1 for c in val):
            rep.problem("LexTables", f"{name} is not a list of single characters")
    kws = ", ".join(f"({lstr(k)}, {lstr(v.name)})" for k, v in sorted(kw_typed.items()))
    syms = ", ".join(f"({lstr(k)}, {lstr(v.name)})" for k, v in sorted(L.SYMBOLS.items()))
    esc = ", ".join(f"({lchar(k)}, {lchar(v)})" for k, v in L.ESCAPE_CODES.items())
    tts = ", ".join(f"({lstr(t.name)}, {lstr(t.value)})" for t in TokenType)
    rep.info["lextables"] = {"keywords": len(kw_typed), "symbols": len(L.SYMBOLS), "escapes": len(L.ESCAPE_CODES)}
    return f"""/-! GENERATED by harness/extract.py from /repo (tumfl/lexer.py, tumfl/Token.py) - do not edit. -/
namespace Tumfl.Gen

def whitespace : List Char := {chars(L.WHITESPACE)}
def number : List Char := {chars(L.NUMBER)}
def hexNumber : List Char := {chars(L.HEX_NUMBER)}
def letter : List Char := {chars(L.LETTER)}
def alphanumeric : List Char := {chars(L.ALPHANUMERIC)}
/-- ESCAPE_CODES: escape letter -> character -/
def escapeCodes : List (Char × Char) := [{esc}]
/-- keyword text -> TokenType member name, as seen by a `typed=True` lexer (`as`, `is` only when typed) -/
def keywords : List (String × String) := [{kws}]
/-- SYMBOLS: text -> TokenType member name -/
def symbols : List (String × String) := [{syms}]
/-- TokenType: member name -> value -/
def tokenTypes : List (String × String) := [{tts}]

end Tumfl.Gen
"""


# --------------------------------------------------------------------------- expression ladder (static read of parser.py)
def extract_ladder(rep: Report) -> str:
    import ast as pyast
    from tumfl.AST import BinaryOperand, BinOp, Name, UnaryOperand, UnOp
    from tumfl.parser import Parser
    from tumfl.Token import Token, TokenType

    src = (REPO / "tumfl" / "parser.py").read_text()
    tree = pyast.parse(src)
    cls = next(n for n in tree.body if isinstance(n, pyast.ClassDef) and n.name == "Parser")
    methods = {n.name: n for n in cls.body if isinstance(n, pyast.FunctionDef)}

    def tt_names(node) -> list[str]:
        if isinstance(node, pyast.Tuple):
            return [e.attr for e in node.elts]
        return [node.attr]

    def single_return_call(m):
        body = [b for b in m.body if not (isinstance(b, pyast.Expr) and isinstance(b.value, pyast.Constant))]
        if len(body) == 1 and isinstance(body[0], pyast.Return) and isinstance(body[0].value, pyast.Call):
            return body[0].value
        return None

    levels = []
    cur = "_parse_exp"
    seen = set()
    while True:
        if cur in seen or cur not in methods:
            rep.problem("Ladder", f"ladder does not reach the unary level (stuck at {cur})")
            break
        seen.add(cur)
        call = single_return_call(methods[cur])
        if call is None or not isinstance(call.func, pyast.Attribute):
            break
        helper = call.func.attr
        if helper.endswith("parse_left_associative_binop") and len(call.args) == 2:
            levels.append((cur, False, tt_names(call.args[0]), call.args[1].attr, None))
            cur = call.args[1].attr
        elif helper.endswith("parse_right_associative_binop") and len(call.args) == 3:
            levels.append((cur, True, tt_names(call.args[0]), call.args[1].attr, call.args[2].attr))
            if call.args[1].attr == "_parse_atom":
                break
            cur = call.args[1].attr
        else:
            break
    # the walk ends at _parse_un_exp (not a single call); _parse_pow_exp is read on its own
    bin_levels = list(levels)
    pow_call = single_return_call(methods["_parse_pow_exp"]) if "_parse_pow_exp" in methods else None
    pow_level = None
    if (pow_call is not None and isinstance(pow_call.func, pyast.Attribute) and pow_call.func.attr.endswith("parse_right_associative_binop")
            and len(pow_call.args) == 3):
        pow_level = ("_parse_pow_exp", True, tt_names(pow_call.args[0]), pow_call.args[1].attr, pow_call.args[2].attr)
    if pow_level is None or pow_level[3] != "_parse_atom" or pow_level[4] != "_parse_un_exp":
        rep.problem("Ladder", "_parse_pow_exp is not `right-assoc(types, _parse_atom, _parse_un_exp)`", level=str(pow_level))
        pow_level = pow_level or ("_parse_pow_exp", True, [], "", "")
    levels = bin_levels + [pow_level]
    un = methods.get("_parse_un_exp")
    un_src = pyast.unparse(un) if un else ""
    if "self._parse_un_exp()" not in un_src or "return self._parse_pow_exp()" not in un_src:
        rep.problem("Ladder", "_parse_un_exp does not have the shape `if unary: eat; UnOp(tok, self._parse_un_exp()) else self._parse_pow_exp()`")
    un_types = []
    for n in pyast.walk(un):
        if isinstance(n, pyast.Compare) and isinstance(n.ops[0], pyast.In):
            un_types = tt_names(n.comparators[0])
    # the level chain must be: each level's base is the next level's method; right-assoc binary levels re-enter themselves
    chain_ok = True
    for (m, right, _tys, base, operand), nxt in zip(bin_levels, [l[0] for l in bin_levels[1:]] + ["_parse_un_exp"]):
        if base != nxt:
            chain_ok = False
        if right and operand != m:
            rep.problem("Ladder", f"right-associative level {m} does not re-enter itself for its right operand", operand=operand)
    if not chain_ok:
        rep.problem("Ladder", "level methods are not chained base-to-next", levels=str([(l[0], l[3]) for l in levels]))
    tok = Token(TokenType.NAME, "a", 1, 1)
    a = Name(tok, "a")
    bmap, umap = [], []
    for t in TokenType:
        try:
            bmap.append((t.name, BinOp.from_token(Token(t, t.value, 1, 1), a, a).op.value))
        except Exception:  # noqa: BLE001
            pass
        try:
            umap.append((t.name, UnOp.from_token(Token(t, t.value, 1, 1), a).op.value))
        except Exception:  # noqa: BLE001
            pass
    bd = dict(bmap)
    for m, right, tys, base, operand in levels:
        for ty in tys:
            if ty not in bd:
                rep.problem("Ladder", f"token type {ty} of level {m} has no BinaryOperand", level=m)
    ud = dict(umap)
    un_map = [(t, ud[t]) for t in un_types if t in ud]
    if len(un_map) != len(un_types):
        rep.problem("Ladder", "a unary token type has no UnaryOperand", types=un_types)
    lv = ", ".join("([" + ", ".join(lstr(bd.get(t, "?")) for t in tys) + "], " + ("true" if right else "false") + ")"
                   for m, right, tys, base, operand in bin_levels)
    pw = ", ".join(lstr(bd.get(t, "?")) for t in (levels[-1][2] if levels else []))
    bt = ", ".join(f"({lstr(k)}, {lstr(v)})" for k, v in bmap)
    ut = ", ".join(f"({lstr(k)}, {lstr(v)})" for k, v in un_map)
    be = ", ".join(lstr(t.name) for t in Parser._BLOCK_END_TYPES)
    rep.info["ladder"] = {"levels": [(l[0], l[1], l[2]) for l in levels]}
    return f"""/-! GENERATED by harness/extract.py from /repo (tumfl/parser.py read statically, from_token maps evaluated) - do not edit. -/
namespace Tumfl.Gen

/-- binary levels from `_parse_exp` down to the level above `_parse_un_exp`: (operator symbols, uses the right-associative helper) -/
def ladderLevels : List (List String × Bool) := [{lv}]
/-- operators of `_parse_pow_exp` (right associative, base `_parse_atom`, operand `_parse_un_exp`) -/
def powOps : List String := [{pw}]
/-- `BinOp.from_token`: TokenType member name -> operator symbol -/
def binaryTokens : List (String × String) := [{bt}]
/-- token types accepted by `_parse_un_exp` with `UnOp.from_token`'s operator symbol -/
def unaryTokens : List (String × String) := [{ut}]
/-- `Parser._BLOCK_END_TYPES` -/
def blockEndTypes : List String := [{be}]

end Tumfl.Gen
"""


# --------------------------------------------------------------------------- formatter tables
def extract_fmttables(rep: Report) -> str:
    import tumfl.formatter as F
    esc = ", ".join(f"({lchar(k)}, {lchar(v)})" for k, v in F.ESCAPE_CHARACTERS.items())
    spaces = [c for c in range(0x110000) if not (0xD800 <= c <= 0xDFFF) and chr(c).isspace()]
    alnum = [c for c in range(128) if chr(c).isalnum()]
    mb = ", ".join(f"({lchar(k)}, {lchar(v)})" for k, v in F.MATCHING_BRACKETS.items())

    def sd(cls) -> str:
        def v(x):
            if isinstance(x, bool):
                return "true" if x else "false"
            if isinstance(x, int):
                return str(x)
            return lstr(x) + ".toList"
        fields = ["STATEMENT_SEPARATOR", "INDENTATION", "ARGUMENT_SEPARATOR", "INCLUDE_COMMENTS", "COMMENT_SEP", "USE_SINGLE_QUOTE",
                  "USE_CALL_SHORTHAND", "REMOVE_UNNECESSARY_CHARS", "ADD_ALL_BRACKETS", "ADD_CLOSE_BRACKETS", "SPACE_IN_TABLE",
                  "NEWLINE_LIMIT", "LINE_WIDTH", "BLOCK_SPACER", "KEEP_SEMICOLON"]
        return "[" + ", ".join(f"({lstr(f)}, {lstr(repr(getattr(cls, f)))})" for f in fields) + "]"

    return f"""/-! GENERATED by harness/extract.py from /repo (tumfl/formatter.py, the running interpreter's str predicates) - do not edit. -/
namespace Tumfl.Gen

/-- ESCAPE_CHARACTERS: character -> escape letter -/
def escapeCharacters : List (Char × Char) := [{esc}]
/-- code points for which this interpreter's `str.isspace()` is true -/
def pyIsSpace : List Nat := {spaces}
/-- ASCII code points for which `str.isalnum()` is true -/
def pyIsAlnumAscii : List Nat := {alnum}
/-- MATCHING_BRACKETS: closing -> opening -/
def matchingBrackets : List (Char × Char) := [{mb}]
/-- `string.ascii_letters`, `string.digits` -/
def asciiLetters : List Char := [{", ".join(lchar(c) for c in __import__("string").ascii_letters)}]
def digits : List Char := [{", ".join(lchar(c) for c in __import__("string").digits)}]
/-- attribute values of the two built-in styles, as `repr` -/
def defaultStyleRepr : List (String × String) := {sd(F.FormattingStyle)}
def minifiedStyleRepr : List (String × String) := {sd(F.MinifiedStyle)}

end Tumfl.Gen
"""


# --------------------------------------------------------------------------- AST schema (introspection; C17 C18)
SCHEMA_SAMPLE = """
local a <const>, b <close> = 1, nil
local c
x, y.z, t[1] = f(1, 'two', {3; k = 4, [5] = 6}), a:m(...), function(p, ...) return p end
::lbl:: goto lbl
do break end
while not a do a = -a ^ 2 .. 'x' end
repeat local q = #t until q
if a then b() elseif c then d() else e() end
if a then end
for i = 1, 2, 3 do end
for i = 1, 2 do end
for k, v in pairs(t) do end
function n.a.b:c(p, ...) return end
function g() end
local function h(...) return ..., nil, true, false, 0x1p4, 1.5e3 end
f'str' ; g{1}
o:m 'x'
return a, (b)
"""


def extract_schema(rep: Report) -> str:
    import tumfl
    from tumfl.AST.ASTNode import ASTNode
    from tumfl.AST.Statement.LocalAssign import AttributedName
    from tumfl.basic_walker import NoneWalker

    ast = tumfl.parse(SCHEMA_SAMPLE)
    nodes: list[ASTNode] = []

    def kids(n):
        out = []
        for k, v in vars(n).items():
            if k in ("token", "parent_class", "file_name", "comment", "attributes"):
                continue
            if isinstance(v, ASTNode):
                out.append((k, "node", [v]))
            elif isinstance(v, list):
                if any(isinstance(x, AttributedName) for x in v):
                    out.append((k, "wrapperlist", [c for x in v for c in (x.name, x.attribute) if c is not None]))
                else:
                    out.append((k, "nodelist", [x for x in v if isinstance(x, ASTNode)]))
            elif v is None:
                out.append((k, "none", []))
            else:
                out.append((k, "atom", []))
        return out

    stack = [ast]
    while stack:
        n = stack.pop()
        nodes.append(n)
        for _, _, cs in kids(n):
            stack.extend(cs)
    by_cls: dict[str, dict] = {}
    for n in nodes:
        cls = type(n).__name__
        d = by_cls.setdefault(cls, {"slots": {}, "compared": None, "linked": {}, "walked": {}, "replaced": {}, "override": "parent" in type(n).__dict__})
        compared = sorted(i for i in n._ASTNode__dir() if not callable(getattr(n, i)))
        if d["compared"] is None:
            d["compared"] = compared
        elif d["compared"] != compared:
            rep.problem("Schema", f"instances of {cls} yield different attribute lists from __dir", a=d["compared"], b=compared)
        # which children does NoneWalker.visit_<cls> visit directly, and how often
        seen: list[int] = []

        class Probe(NoneWalker):
            def visit(self, node):  # record, do not recurse
                seen.append(id(node))

        w = Probe()
        getattr(NoneWalker, "visit_" + cls)(w, n)
        for k, kind, cs in kids(n):
            kinds = d["slots"].setdefault(k, set())
            kinds.add(kind)
            if cs:
                linked = all(c.parent_class is n for c in cs)
                d["linked"][k] = d["linked"].get(k, True) and linked
                counts = [seen.count(id(c)) for c in cs]
                d["walked"][k] = d["walked"].get(k, True) and all(c == 1 for c in counts)
                # replace_child: every child of the slot, one at a time, must be substituted at its position and nothing else may change
                ok_rep = True
                for c in cs:
                    before = [(kk, [id(x) for x in cc]) for kk, _, cc in kids(n)]
                    sentinel = tumfl.AST.Name(c.token, "sentinel__")
                    try:
                        n.replace_child(c, sentinel)
                        after = [(kk, [id(x) for x in cc]) for kk, _, cc in kids(n)]
                        want = [(kk, [id(sentinel) if i == id(c) else i for i in ids]) for kk, ids in before]
                        ok_rep = ok_rep and after == want
                        n.replace_child(sentinel, c)
                        ok_rep = ok_rep and [(kk, [id(x) for x in cc]) for kk, _, cc in kids(n)] == before
                    except Exception:  # noqa: BLE001
                        ok_rep = False
                d["replaced"][k] = d["replaced"].get(k, True) and ok_rep
        extra = [i for i in seen if i not in {id(c) for _, _, cs in kids(n) for c in cs}]
        if extra:
            rep.problem("Schema", f"NoneWalker.visit_{cls} visits something that is not a child")
    import tumfl.AST as A
    expected = sorted(c.__name__ for c in vars(A).values() if isinstance(c, type) and issubclass(c, ASTNode)
                      and not getattr(c, "__abstractmethods__", None) and c.__name__ not in ("ASTNode", "Expression", "Statement", "Variable", "TableField", "BaseFunctionDefinition"))
    missing = [c for c in expected if c not in by_cls]
    if missing:
        rep.problem("Schema", "the sample program does not exercise every node class", missing=missing)

    def kind_of(ks: set) -> str:
        ks = set(ks)
        if ks <= {"node"}:
            return "node"
        if ks <= {"node", "none"}:
            return "optnode"
        if ks <= {"nodelist"}:
            return "nodelist"
        if ks <= {"nodelist", "none"}:
            return "optnodelist"
        if ks <= {"wrapperlist"}:
            return "wrapperlist"
        if ks <= {"atom", "none"}:
            return "atom"
        return "mixed:" + "+".join(sorted(ks))

    rows = []
    for cls in sorted(by_cls):
        d = by_cls[cls]
        slots = ", ".join(f"({lstr(k)}, {lstr(kind_of(v))})" for k, v in sorted(d["slots"].items()))
        compared = ", ".join(lstr(x) for x in d["compared"])
        linked = ", ".join(lstr(k) for k, v in sorted(d["linked"].items()) if v)
        walked = ", ".join(lstr(k) for k, v in sorted(d["walked"].items()) if v)
        exercised = ", ".join(lstr(k) for k in sorted(d["linked"]))
        replaced = ", ".join(lstr(k) for k, v in sorted(d["replaced"].items()) if v)
        rows.append(f"  {{ cls := {lstr(cls)}, slots := [{slots}], compared := [{compared}], linked := [{linked}], walked := [{walked}], exercised := [{exercised}], replaced := [{replaced}] }}")
    rep.info["schema"] = {"classes": len(by_cls), "nodes": len(nodes)}
    return """/-! GENERATED by harness/extract.py from /repo by introspection of a sample AST covering every node class - do not edit.
For each class: the structural slots found by reflection (`vars`), the attributes `ASTNode.__dir` yields that are not callable (what `__eq__`
compares and `parent()` scans), the child slots whose children carry a correct parent link after `parse`, the child slots whose children
`NoneWalker.visit_<class>` visits exactly once, the child slots that held at least one child in the sample, and the child slots in which
`replace_child(child, new)` substituted exactly that child (at its position, nothing else changed, and back again) for every child tried. -/
namespace Tumfl.Gen

structure ClassSchema where
  cls : String
  slots : List (String × String)
  compared : List String
  linked : List String
  walked : List String
  exercised : List String
  replaced : List String

def schema : List ClassSchema := [
""" + ",\n".join(rows) + """
]

end Tumfl.Gen
"""


# --------------------------------------------------------------------------- shared state scan (static; C14)
MUTATORS = {"append", "extend", "insert", "pop", "remove", "clear", "sort", "reverse", "update", "setdefault", "popitem", "add", "discard"}


def extract_sharedstate(rep: Report) -> str:
    import ast as pyast

    pkg = REPO / "tumfl"
    files = sorted(pkg.rglob("*.py"))
    shared: list[tuple[str, str, str]] = []          # (module, name, kind)
    funcs: dict[str, dict] = {}                       # qualified function name -> {"calls": set, "writes": [...], "argmut": [...]}
    mutable_ctor = (pyast.Dict, pyast.List, pyast.Set, pyast.DictComp, pyast.ListComp, pyast.SetComp)

    def is_mutable_value(v) -> bool:
        if isinstance(v, mutable_ctor):
            return True
        return isinstance(v, pyast.Call) and isinstance(v.func, pyast.Name) and v.func.id in ("dict", "list", "set", "defaultdict", "OrderedDict")

    def root_name(e):
        while isinstance(e, (pyast.Attribute, pyast.Subscript)):
            e = e.value
        return e.id if isinstance(e, pyast.Name) else None

    for f in files:
        mod = ".".join(f.relative_to(REPO).with_suffix("").parts)
        tree = pyast.parse(f.read_text())
        module_names = set()
        for node in tree.body:
            targets = []
            if isinstance(node, pyast.Assign):
                targets = [(t, node.value) for t in node.targets]
            elif isinstance(node, pyast.AnnAssign) and node.value is not None:
                targets = [(node.target, node.value)]
            for t, v in targets:
                if isinstance(t, pyast.Name) and is_mutable_value(v):
                    shared.append((mod, t.id, "module-level " + type(v).__name__))
                    module_names.add(t.id)
            if isinstance(node, pyast.ClassDef) and not any(isinstance(b, pyast.Name) and b.id == "Enum" for b in node.bases):
                for b in node.body:
                    tv = []
                    if isinstance(b, pyast.Assign):
                        tv = [(t, b.value) for t in b.targets]
                    elif isinstance(b, pyast.AnnAssign) and b.value is not None:
                        tv = [(b.target, b.value)]
                    for t, v in tv:
                        if isinstance(t, pyast.Name) and is_mutable_value(v):
                            shared.append((mod, f"{node.name}.{t.id}", "class-level " + type(v).__name__))
        # functions
        for node in pyast.walk(tree):
            if not isinstance(node, (pyast.FunctionDef, pyast.AsyncFunctionDef)):
                continue
            q = f"{mod}:{node.name}"
            d = funcs.setdefault(q, {"calls": set(), "writes": [], "argmut": [], "mod": mod, "name": node.name})
            for a in node.args.defaults + node.args.kw_defaults:
                if a is not None and is_mutable_value(a):
                    shared.append((mod, f"{node.name}(default)", "mutable default argument"))
            params = {a.arg for a in node.args.args + node.args.kwonlyargs}
            for dec in node.decorator_list:
                if "cache" in pyast.unparse(dec):
                    d["writes"].append((f"@{pyast.unparse(dec)[:40]} (memoised results are shared state)", node.lineno))
            for n in pyast.walk(node):
                if isinstance(n, pyast.Attribute) and n.attr == "__dict__" and root_name(n) != "self":
                    d["writes"].append((pyast.unparse(n)[:50], n.lineno))
                if isinstance(n, pyast.Global):
                    d["writes"].append(("global " + ",".join(n.names), n.lineno))
                if isinstance(n, pyast.Call):
                    fn = n.func
                    if isinstance(fn, pyast.Name):
                        d["calls"].add(fn.id)
                        # setattr/delattr on anything but self writes to an argument, a class or a module: shared state
                        if fn.id in ("setattr", "delattr") and n.args and root_name(n.args[0]) != "self":
                            d["writes"].append((f"{fn.id}({pyast.unparse(n.args[0])[:40]}, ...)", n.lineno))
                        if fn.id in ("globals", "vars", "locals"):
                            d["writes"].append((f"{fn.id}() used", n.lineno))
                    elif isinstance(fn, pyast.Attribute):
                        d["calls"].add(fn.attr)
                        if fn.attr in MUTATORS:
                            r = root_name(fn.value)
                            if r in module_names:
                                d["writes"].append((f"{r}.{fn.attr}()", n.lineno))
                            # a mutating method on an attribute chain (node.statements.append, style.X.update ...): mutates an argument
                            if isinstance(fn.value, (pyast.Attribute, pyast.Subscript)) and r not in ("self",) and mod.endswith("formatter"):
                                d["argmut"].append((pyast.unparse(fn)[:60], n.lineno))
                stores = []
                if isinstance(n, pyast.Assign):
                    stores = n.targets
                elif isinstance(n, (pyast.AugAssign, pyast.AnnAssign)):
                    stores = [n.target]
                elif isinstance(n, pyast.Delete):
                    stores = n.targets
                for t in stores:
                    if isinstance(t, (pyast.Subscript, pyast.Attribute)):
                        r = root_name(t)
                        if r in module_names:
                            d["writes"].append((pyast.unparse(t)[:60], n.lineno))
                        if isinstance(t, pyast.Attribute) and r != "self" and mod.endswith("formatter"):
                            d["argmut"].append((pyast.unparse(t)[:60] + " =", n.lineno))
    # reachability from the API entry points by called names
    by_name: dict[str, list[str]] = {}
    for q, d in funcs.items():
        by_name.setdefault(d["name"], []).append(q)
    entry_names = ["parse", "format", "resolve_recursive", "__init__", "get_next_token", "parse_chunk", "visit"]
    seen: set[str] = set()
    work = [q for n in entry_names for q in by_name.get(n, [])]
    while work:
        q = work.pop()
        if q in seen:
            continue
        seen.add(q)
        for c in funcs[q]["calls"]:
            for q2 in by_name.get(c, []):
                if q2 not in seen:
                    work.append(q2)
            # visit_* dispatch by name
        if funcs[q]["name"] == "visit":
            for n2, qs in by_name.items():
                if n2.startswith("visit_"):
                    work.extend(qs)
    writes = sorted((q, w, ln) for q in seen for (w, ln) in funcs[q]["writes"])
    argmut = sorted((q, w, ln) for q in seen for (w, ln) in funcs[q]["argmut"])
    unreach = sorted((q, w, ln) for q in funcs if q not in seen for (w, ln) in funcs[q]["writes"])
    rep.info["sharedstate"] = {"shared_objects": len(shared), "reachable_functions": len(seen), "functions": len(funcs),
                               "writes_in_unreachable_functions": [f"{q} {w} line {ln}" for q, w, ln in unreach]}

    def tl(rows):
        return "[" + ", ".join(f"({lstr(a)}, {lstr(b)}, {c})" for a, b, c in rows) + "]"

    return f"""/-! GENERATED by harness/extract.py: static scan of /repo/tumfl for shared mutable state - do not edit.
`sharedObjects`: module-level / class-level mutable objects and mutable default arguments.
`sharedWrites`: stores to, deletions from and mutating method calls on module-level mutable objects, `global` statements, `setattr`/`delattr` on anything but `self`,
uses of `globals()`/`vars()`/`__dict__` and caching decorators, in functions reachable
(by called names) from the API entry points parse / format / resolve_recursive / the Lexer, Parser and Formatter methods.
`formatArgWrites`: in formatter.py, attribute stores on anything but `self` and mutating method calls on attribute chains (they would modify the AST or the style). -/
namespace Tumfl.Gen

def sharedObjects : List (String × String × String) := [{", ".join(f"({lstr(a)}, {lstr(b)}, {lstr(c)})" for a, b, c in sorted(set(shared)))}]
def sharedWrites : List (String × String × Nat) := {tl(writes)}
def formatArgWrites : List (String × String × Nat) := {tl(argmut)}

end Tumfl.Gen
"""


EXTRACTORS = {
    "Brackets": extract_brackets,
    "SharedState": extract_sharedstate,
    "Schema": extract_schema,
    "FmtTables": extract_fmttables,
    "Ladder": extract_ladder,
    "LexTables": extract_lextables,
}


def main() -> int:
    rep = Report()
    changed = []
    for name, fn in EXTRACTORS.items():
        try:
            text = fn(rep)
        except SystemExit:
            raise
        except Exception as e:  # the code no longer has the shape the extractor needs
            import traceback
            rep.problem(name, f"extractor crashed: {type(e).__name__}: {e}", trace=traceback.format_exc()[-1500:])
            continue
        if write_if_changed(GEN / f"{name}.lean", text):
            changed.append(name)
    print(json.dumps({"problems": rep.problems, "changed": changed, "info": rep.info}))
    return 0


if __name__ == "__main__":
    sys.exit(main())
