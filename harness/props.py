"""The twenty property checks: generators (streams), oracles, known-finding classifiers."""
from __future__ import annotations

import itertools
import json
import random
import signal
import os
import sys
from typing import Any, Callable

from common import drive, hx, quiet, unhx
import absast
import framework as fw
import gen

import tumfl
from tumfl import AST as A
from tumfl.formatter import FormattingStyle, MinifiedStyle
from tumfl.Token import Token, TokenType
from tumfl.error import LexerError, ParserError, TumflError

REGISTRY: dict[str, dict] = {}

TRUSTED_COMMON = [
    "Lean 4.33.0 kernel; axioms of every property theorem within {propext, Classical.choice, Quot.sound}",
    "Spec (Tumfl/Spec/*.lean): hand-written from the Lua 5.4 manual and llex.c/lparser.c; accepted all 28 UTF-8 files of /repo/lua-tests; no Lua binary available",
    "harness: generators, abs (tumfl AST -> Spec S-expression), driver glue",
]


# --------------------------------------------------------------------------- helpers
class Timeout(Exception):
    pass


def _alarm(*_a):
    raise Timeout()


def _with_alarm(seconds: int, fn: Callable, *args):
    old = signal.signal(signal.SIGALRM, _alarm)
    signal.alarm(seconds)
    try:
        return fn(*args)
    finally:
        signal.alarm(0)
        signal.signal(signal.SIGALRM, old)


def with_watchdog(seconds: int, fn: Callable, *args):
    """Run fn under a watchdog.  A first timeout is retried once with a much longer limit: on a loaded machine a short
    limit can expire although the call takes milliseconds, and a timeout must never be a false alarm."""
    global _CONFIRMED_TIMEOUTS, _SHORT_TIMEOUTS
    if _CONFIRMED_TIMEOUTS >= 3 and _SHORT_TIMEOUTS >= 20:
        raise fw.EnoughEvidence("the code under test did not terminate on 23 inputs; ending the run with the violations recorded so far")
    if _CONFIRMED_TIMEOUTS >= 3:
        # the code under test has been seen not to terminate within the long limit three times in this run: later timeouts are
        # reported after the short limit (the run already fails; the point is to finish and report)
        try:
            return _with_alarm(1, fn, *args)
        except Timeout:
            _SHORT_TIMEOUTS += 1
            raise
    try:
        return _with_alarm(seconds, fn, *args)
    except Timeout:
        try:
            return _with_alarm(max(60, 10 * seconds), fn, *args)
        except Timeout:
            _CONFIRMED_TIMEOUTS += 1
            raise


_CONFIRMED_TIMEOUTS = 0
_SHORT_TIMEOUTS = 0


def tparse(src: str):
    """('ok', ast) | ('lexer', e) | ('parser', e) | ('other', e)"""
    with quiet():
        try:
            return "ok", with_watchdog(10, tumfl.parse, src)
        except LexerError as e:
            return "lexer", e
        except ParserError as e:
            return "parser", e
        except Timeout as e:
            return "timeout", e
        except RecursionError as e:
            return "recursion", e
        except Exception as e:  # noqa: BLE001
            return "other", e


def tformat(ast, style=None):
    """('ok', text) | ('timeout', None) | ('other', e)"""
    with quiet():
        try:
            return "ok", with_watchdog(5, tumfl.format, ast, style)
        except Timeout:
            return "timeout", None
        except RecursionError as e:
            return "recursion", e
        except Exception as e:  # noqa: BLE001
            return "other", e


def refparse(srcs: list[str]) -> list[str]:
    return drive([("refparse", hx(s)) for s in srcs])


STYLE_FIELDS = ["STATEMENT_SEPARATOR", "INDENTATION", "ARGUMENT_SEPARATOR", "INCLUDE_COMMENTS", "COMMENT_SEP",
                "USE_SINGLE_QUOTE", "USE_CALL_SHORTHAND", "REMOVE_UNNECESSARY_CHARS", "ADD_ALL_BRACKETS",
                "ADD_CLOSE_BRACKETS", "SPACE_IN_TABLE", "NEWLINE_LIMIT", "LINE_WIDTH", "BLOCK_SPACER",
                "KEEP_SEMICOLON"]


def mkstyle(d: dict, base=FormattingStyle):
    return type("S", (base,), dict(d))


def style_dict(style) -> dict:
    return {k: getattr(style, k) for k in STYLE_FIELDS}


TOK = Token(TokenType.NAME, "x", 1, 1)


def chunk_of_exp(e) -> A.Chunk:
    c = A.Chunk(Token(TokenType.NAME, "x", 1, 1), [A.Assign(Token(TokenType.NAME, "x", 1, 1), [A.Name(TOK, "x")], [e])], None)
    c.parent(None)
    return c


def register(pid: str, **kw) -> None:
    kw.setdefault("trusted_base", TRUSTED_COMMON)
    kw.setdefault("assumptions", [])
    kw.setdefault("tie_names", [])
    kw.setdefault("extractors", [])
    REGISTRY[pid] = kw


def replay(ctx: fw.Ctx, spec: dict, rec: dict) -> int:
    """Re-run exactly the recorded case against the real code and its oracle. Exit 1 + VIOLATION line if it still fails."""
    path = sys.argv[-1]
    if rec.get("no_failing_input_found"):
        # the replay of an unproved obligation is the obligation itself
        import run as runmod
        rep = runmod.regenerate(ctx)
        probs = [p for p in rep.get("problems", []) if p["extractor"].lower() in [e.lower() for e in spec.get("extractors", [])]]
        lean = fw.lean_check(ctx.prop, spec["obligations"], spec["modules"], False)
        if lean.broken or probs:
            print(f"still unproved: {lean.broken} {[p['what'] for p in probs]}")
            print(f"VIOLATION property={ctx.prop} replay={path} no-failing-input-found")
            return 1
        print("all obligations check again")
        return 0
    case = rec["case"]
    kind = case.get("kind") if isinstance(case, dict) else None
    st = ctx.stream("replay")
    if kind == "program":
        styles = [case["style"]] if "style" in case else []
        eval_programs(ctx, st, [case["source"]], styles, check_tree=(not styles) or ctx.prop in ("C03", "C07"), check_format=bool(styles),
                      fixpoint=(ctx.prop == "C15"), must_be_valid=False)
    elif kind == "lex":
        if case.get("after_failed_text") is not None:
            with quiet():
                try:
                    lx = Lexer(case["after_failed_text"])
                    for _ in range(50):
                        if lx.get_next_token().type == TokenType.EOF:
                            break
                except Exception:  # noqa: BLE001
                    pass
        eval_lex(st, [case["source"]])
    elif kind == "text":
        if ctx.prop == "C10":
            eval_accept(st, [case["source"]])
        else:
            eval_total(st, [case["source"]])
    elif kind == "string":
        ch = dict(string_contexts(case["value"]))[case["context"]]
        eval_ast_roundtrip(st, [({"kind": "string", "value": case["value"], "context": case["context"]}, ch, case.get("style"))])
    elif kind == "exp":
        status, ast = tparse(case["source"])
        if status != "ok":
            st.fail(f"source does not parse: {status}", case)
        else:
            eval_exp_roundtrip(st, [(ast.statements[0].expressions[0], case["style"])])
    elif kind == "pair":
        (sa, a), (sb, b) = tparse(case["a"]), tparse(case["b"])
        if sa == "ok" and sb == "ok":
            same = struct_dump(a) == struct_dump(b)
            st.record(case)
            if (a == b) != same:
                st.fail("== disagrees with structural identity", case)
    elif kind == "options":
        st.record(case)
        src = bytes.fromhex(case["source"]).decode("utf-8", "surrogatepass")
        plain = "".join("?" if 0xD800 <= ord(ch) <= 0xDFFF or ord(ch) > 127 or ch == "\x00" else ch for ch in src)
        got, want = option_error_pos(src, case["typed"], case["ignore_unicode_errors"]), option_error_pos(plain, case["typed"], case["ignore_unicode_errors"])
        if got[0] == "parser" and want[0] == "parser" and got != want:
            st.fail("the position of the ParserError token depends on characters inside strings/comments", dict(case, got=got, want=want))
    elif kind == "linkpair":
        st.record(case)
        msg = eval_linkpair(case["source"], case["how"])
        if msg:
            st.fail(msg, case)
    elif kind == "filetree":
        tree = {k: case[k] for k in ("files", "main", "search")}
        tree["dirs"] = case.get("dirs", [])
        if "fault" in case:
            status, res = resolve_tree(tree)
            st.record(case)
            if status != "dep":
                st.fail(f"uninlinable require: {status} {res!r}", case)
        else:
            eval_resolve(ctx, st, [tree], [case["style"]] if "style" in case else [None, "min"])
    elif kind == "history":
        root = materialise(C14_TREE)
        try:
            w = ApiWorld(root)
            st.record(case)
            for i, op in enumerate(case["calls"]):
                op = tuple(op)
                got = w.call(op)
                want = isolated_result(op, [tuple(o) for o in case["calls"][: i + 1]], root)
                if got != want or got.startswith(("MUTATED", "EXC")):
                    st.fail(f"call {i} ({op[0]}): {got[:200]} vs isolated {want[:200]}", case)
                    break
                fr = fresh_results([op], root).get(json.dumps(op, sort_keys=True, default=str))
                if op[0] != "lexer_next" and fr is not None and got != fr:
                    st.fail(f"call {i} ({op[0]}): {got[:200]} vs the same call in a fresh interpreter {fr[:200]}", case)
                    break
        finally:
            shutil.rmtree(root, ignore_errors=True)
    elif kind == "comments":
        status, ast = tparse(case["source"])
        fs, out = tformat(ast, None) if status == "ok" else ("x", None)
        st.record(case)
        if fs != "ok":
            st.fail(f"parse/format failed: {status} {fs}", case)
        else:
            ans = drive([("reflex", hx(out))])[0]
            got = [g for g in out_comments(ans) if g[0] != "tumfl"] if ans.startswith("ok") else None
            exp = [tuple(e) for e in case["expected"]]
            if got is None or [g[0] for g in got] != [e[0] for e in exp] or any(e[1] is not None and g[1] != e[1] for g, e in zip(got, exp)):
                st.fail("leading comments not preserved", dict(case, output=out, got=got))
    else:
        print("this replay file has no replayable case kind; re-run the check with VERIF_SEED=%s" % rec.get("seed"))
        return 2
    for f in st.failures:
        print("still fails:", f.what)
    if st.failures:
        print(f"VIOLATION property={ctx.prop} replay={path}")
        return 1
    print("the recorded case passes now")
    return 0


def exp_src(e) -> str:
    """fully parenthesised source of an operator tree over names"""
    if isinstance(e, A.BinOp):
        return f"({exp_src(e.left)} {e.op.value} {exp_src(e.right)})"
    if isinstance(e, A.UnOp):
        return f"({e.op.value} {exp_src(e.right)})"
    if isinstance(e, A.Name):
        return e.variable_name
    return leaf_src(e)


def leaf_src(e) -> str:
    with quiet():
        return tumfl.format(chunk_of_exp(e), MinifiedStyle).split("=", 1)[1].strip()


def c11_leaves():
    N = lambda n: A.Name(TOK, n)  # noqa: E731
    return [N("a"), A.Number(TOK, False, "2"), A.Number(TOK, False, "0", "5"), A.Number(TOK, True, "f"), A.String(TOK, "s"), A.Nil(TOK), A.Boolean(TOK, True),
            A.Vararg(TOK), A.Table(TOK, []), A.ExpFunctionCall(TOK, N("f"), []), A.Index(TOK, N("t"), N("k")), A.NamedIndex(TOK, N("t"), N("k")),
            A.ExpMethodInvocation(TOK, N("o"), N("m"), [])]


def c11_trees_leaves():
    """every leaf kind, bare and under every unary operator, on either side of every binary operator and under every unary operator"""
    for p in BIN:
        for mk in range(len(c11_leaves())):
            for u in [None] + UN:
                for side in (0, 1):
                    leaf = c11_leaves()[mk]
                    child = leaf if u is None else A.UnOp(TOK, u, leaf)
                    other = A.Name(TOK, "z")
                    yield A.BinOp(TOK, p, child, other) if side == 0 else A.BinOp(TOK, p, other, child)
    for u in UN:
        for mk in range(len(c11_leaves())):
            for u2 in [None] + UN:
                leaf = c11_leaves()[mk]
                yield A.UnOp(TOK, u, leaf if u2 is None else A.UnOp(TOK, u2, leaf))


# =========================================================================== C11
BIN = list(A.BinaryOperand)
UN = list(A.UnaryOperand)


def op_tree_random(r: random.Random, n_ops: int):
    """random operator tree with exactly n_ops operators over Name atoms"""
    counter = itertools.count()

    def build(n: int):
        if n == 0:
            return A.Name(TOK, "abcdefgh"[next(counter) % 8])
        if r.random() < 0.25:
            return A.UnOp(TOK, r.choice(UN), build(n - 1))
        k = r.randint(0, n - 1)
        return A.BinOp(TOK, r.choice(BIN), build(k), build(n - 1 - k))

    return build(n_ops)


def c11_trees_small():
    """every (parent, child, side) combination: binary/unary parent x binary/unary child"""
    a, b, c = (A.Name(TOK, n) for n in "abc")
    for p in BIN:
        for ch in BIN:
            yield A.BinOp(TOK, p, A.BinOp(TOK, ch, a, b), c)
            yield A.BinOp(TOK, p, a, A.BinOp(TOK, ch, b, c))
        for u in UN:
            yield A.BinOp(TOK, p, A.UnOp(TOK, u, a), b)
            yield A.BinOp(TOK, p, a, A.UnOp(TOK, u, b))
    for u in UN:
        for ch in BIN:
            yield A.UnOp(TOK, u, A.BinOp(TOK, ch, a, b))
        for u2 in UN:
            yield A.UnOp(TOK, u, A.UnOp(TOK, u2, a))


def c11_trees_three():
    """all trees with exactly three operators, binary operators only plus a unary layer sample"""
    a, b, c, d = (A.Name(TOK, n) for n in "abcd")
    for o1 in BIN:
        for o2 in BIN:
            for o3 in BIN:
                B = lambda o, l, r: A.BinOp(TOK, o, l, r)  # noqa: E731
                yield B(o1, B(o2, B(o3, a, b), c), d)
                yield B(o1, B(o2, a, B(o3, b, c)), d)
                yield B(o1, B(o2, a, b), B(o3, c, d))
                yield B(o1, a, B(o2, B(o3, b, c), d))
                yield B(o1, a, B(o2, b, B(o3, c, d)))


BRACKET_OPTS = [dict(ADD_ALL_BRACKETS=x, ADD_CLOSE_BRACKETS=y, REMOVE_UNNECESSARY_CHARS=z)
                for x in (False, True) for y in (False, True) for z in (False, True)]


def eval_exp_roundtrip(st: fw.Stream, cases: list[tuple[Any, dict]]):
    """cases: (expression AST, style dict).  Oracle: refparse(format(x = e)) == abs(x = e)."""
    outs = []
    for e, sd in cases:
        ch = chunk_of_exp(e)
        want = "ok " + absast.abs_chunk(ch)
        status, out = tformat(ch, mkstyle(sd))
        desc = {"kind": "exp", "source": "x = " + exp_src(e), "expected_tree": want[3:], "style": sd}
        st.record(desc, key=want + json.dumps(sd, sort_keys=True))
        if status != "ok":
            st.fail(f"format raised/timeout: {status} {out!r}", desc)
            continue
        outs.append((desc, want, out))
    got = refparse([o[2] for o in outs])
    for (desc, want, out), g in zip(outs, got):
        if g != want:
            desc = dict(desc, output=out, reparsed=g)
            st.fail("formatted expression re-parses to a different tree" if g.startswith("ok") else "formatted expression is not valid Lua", desc)


def run_c11(ctx: fw.Ctx) -> None:
    st = ctx.stream("parent-child-side x 8 option sets")
    small = list(c11_trees_small())
    eval_exp_roundtrip(st, [(t, o) for t in small for o in BRACKET_OPTS])
    st.exhaustive = True
    st_l = ctx.stream("every leaf kind (name, numerals, string, nil, true, ..., table, call, index, field, method call), bare and under a unary operator, "
                      "on either side of every binary operator")
    leaves = list(c11_trees_leaves())
    eval_exp_roundtrip(st_l, [(t, BRACKET_OPTS[(i + j) % 8]) for i, t in enumerate(leaves) for j in (range(2) if ctx.quick else range(8))])
    st_e = ctx.stream("left and right operand structurally EQUAL (distinct objects): the side of an operand must not be found by comparing it with its sibling")
    eq_cases = []
    for p_ in BIN:
        for ch in BIN:
            mk = lambda: A.BinOp(TOK, ch, A.Name(TOK, "a"), A.Name(TOK, "b"))  # noqa: E731
            eq_cases.append(A.BinOp(TOK, p_, mk(), mk()))
        for u in UN:
            eq_cases.append(A.BinOp(TOK, p_, A.UnOp(TOK, u, A.Name(TOK, "a")), A.UnOp(TOK, u, A.Name(TOK, "a"))))
        eq_cases.append(A.BinOp(TOK, p_, A.Name(TOK, "a"), A.Name(TOK, "a")))
    eval_exp_roundtrip(st_e, [(t, o) for t in eq_cases for o in BRACKET_OPTS])
    st_e.exhaustive = True
    r = ctx.rng("random")
    st2 = ctx.stream("random trees up to 12 operators x option sets")
    cases = []
    for _ in range(ctx.n(1500, 20000)):
        cases.append((op_tree_random(r, r.randint(2, 12)), r.choice(BRACKET_OPTS)))
    eval_exp_roundtrip(st2, cases)
    srcs = [f"x = (a {o1} b) {o2} c; y = a {o1} (b {o2} c); z = {u}(a {o1} b) {o2} {u}c" for o1 in BINOPS_SRC for o2 in BINOPS_SRC for u in ("-", "not ")]
    t2_format(ctx, [(p, BRACKET_OPTS[i % 8]) for i, p in enumerate(srcs[:: ctx.n(3, 1)])])
    if not ctx.quick:
        st3 = ctx.stream("all binary trees with 3 operators x 8 option sets")
        three = list(c11_trees_three())
        for o in BRACKET_OPTS:
            eval_exp_roundtrip(st3, [(t, o) for t in three])
        st3.exhaustive = True


register(
    "C11",
    run=run_c11,
    modules=["Tumfl.Props.C11"],
    obligations=["Tumfl.Props.C11_roundtrip", "Tumfl.Props.C11_precOK", "Tumfl.Inst.brackets_sound_all"],
    extractors=["Brackets"],
    tie_names=["T1:Brackets (bracket table re-extracted through visit_BinOp/visit_UnOp, 9568 entries, self-tested)"],
    rule="operator trees built as tumfl ASTs, formatted under a style, re-read by the Lean Spec parser and compared with the tree; "
         "distinct = distinct (tree, options) pairs; every case has >= 2 operators",
    partial_hypotheses=["atoms are opaque: the theorem is about operator skeletons; that emitted pieces equal `yld (par d t)` is checked by the T2 stream, not proved"],
)


# =========================================================================== program streams (C01 C02 C03 C08 C15)
STAT_FORMS = [
    ";", "x = 1", "a, b.c = f(), 2", "f(x)", "a:m(1)", "f'lit'", "f{1}", "(f or g)(1)", "(a).b = 1",
    "('s'):rep(2)", "::lbl::", "break", "goto lbl", "do local z end", "while a do b = 1 end",
    "repeat local z = 1 until z", "if a then b = 1 elseif c then d = 2 else e = 3 end",
    "for i = 1, 2 do end", "for i = 1, 10, 2 do f(i) end", "for k, v in pairs(t) do end",
    "function n.a.b:c(p, ...) return p end", "function g() end", "local function h(...) return ... end",
    "local p <const>, q <close> = 1, nil", "local r", "x = function() return 1 end", "x = {1, a = 2, [3] = 4; 5}",
    "x = a .. b .. 1", "x = -y ^ -2", "x = not (a == b)", "x = #t + 1", "x = 1 .. 2", "x = t[ [[k]] ]",
    "x = a .. b .. c .. d .. e", "x = a ^ b ^ c ^ d ^ e", "x = a - b - c - d - e", "x = a .. b + c .. d * e .. f",
    "x = {f \";\", g ',', h '=', \"end\", k = '}', [\"]\"] = \")\"}", "f ';' g \",\" h '(' (i)\")\"",
    "x = ((a + b) * (c + d)):m()", "s = ((a or b) .. f(x)):upper()", "((a + b) * (c + d)):m()", "y = ((a + b) * (c + d)).k[1]", "z = ((f or g)(1) .. (h)(2))()",
    "w = (-(a + b)):m((c + d) * (e + f))", "v = (function() end)()", "u = ({(a)}):m()",
    "x = {[1] = a, [2] = b, [3] = c}", "x = {a, [2] = b, [3] = c, [5] = d}", "if a then b() else --[[c]] if d then e() end end", "if a then else if d then e() end end",
    "local n = arg", "block = stmt", "do local indent end", "newline = arg.block",
    "x = 'a\\z --b' .. \"\\z--[[c]]d\"", "s = \"a\\z   --[[b]]c\" y = 1",
]
RETURN_FORMS = ["return", "return 1", "return a, b", "return f(x)", "return ...", "return;", "return 1;"]

OPERANDS = ["a", "_", "_ENV", "e", "E1", "x1", "1", "1.5", "0x1", "0xe", "0xA.8p1", "1e5", "3E+2", ".5", "0x10p-1",
            "'s'", "[[s]]", "...", "nil", "true", "{}", "f()", "a.b", "a[1]", "(a)", "function() end", "-a", "not a",
            "#a", "~a", "- -a", "a.e", "f'x'", "a:b()", "2^-3", "[==[]]]==]", "'\\n'", "0", "9223372036854775807",
            "9223372036854775808", "0xffffffffffffffff", "0x7fffffffffffffff1"]
BINOPS_SRC = ["or", "and", "<", ">", "<=", ">=", "~=", "==", "|", "~", "&", "<<", ">>", "..", "+", "-", "*", "/", "//", "%", "^"]


def adjacency_programs():
    for A_ in OPERANDS:
        for o in BINOPS_SRC:
            for B_ in OPERANDS:
                yield f"x = {A_} {o} {B_}"


def statement_pair_programs():
    for s1 in STAT_FORMS:
        for s2 in STAT_FORMS:
            sep = " ; " if s2.startswith("(") else "\n"
            if s1 in ("break", "goto lbl") and False:
                continue
            yield f"{s1}{sep}{s2}"
    for s1 in STAT_FORMS:
        for r in RETURN_FORMS:
            yield f"{s1}\n{r}"
    # a comment of every form in front of and behind every statement form
    for s1 in ("x = 1", "f(x)", "local r"):
        for s2 in STAT_FORMS + RETURN_FORMS[:2]:
            for c in ("-- c\n", "--[[ml\nml]] ", "--[[one]] ", "--[==[ ]] ]==]\n-- d\n"):
                sep = " ; " if s2.startswith("(") else "\n"
                yield f"{s1}{sep}{c}{s2}"
                yield f"{s1}{sep}{s2} {c}"
    # every statement form nested in every block-carrying form
    wrappers = ["do {} end", "while c do {} end", "repeat {} until c", "if c then {} end", "if c then else {} end",
                "if c then elseif d then {} end", "for i = 1, 2 do {} end", "for k in p do {} end",
                "function w() {} end", "local function w() {} end", "x = function() {} end", "function t.a:w() {} end"]
    for w in wrappers:
        for s in STAT_FORMS + RETURN_FORMS:
            yield w.replace("{}", s)


def lua_quote(v: str) -> str:
    out = ['"']
    for ch in v:
        o = ord(ch)
        if ch in '"\\':
            out.append("\\" + ch)
        elif 32 <= o < 127:
            out.append(ch)
        elif o < 128:
            out.append("\\%03d" % o)
        else:
            out.append("\\u{%x}" % o)
    out.append('"')
    return "".join(out)


def literal_stress_programs():
    """string values that tempt the writer into a long bracket or a wrapped literal, in three positions"""
    items = [" ", "\t", "a", "]", "]]", "]=]", "=", '"', "'", "\\", "é", "\x0b", "\x0c", "\r", "\x00", "\x7f", "[[", "--", "\n",
             "\u3000", "\x85", "\u2028", "\x1c"]   # blanks / line ends for Python's str methods only
    bases = ["\n" * 5, "l1\nl2\nl3\nl4\nl5\nl6", "\n\n", "word " * 30, "x" * 130]
    for b in bases:
        cut = [0, 1, len(b) // 2, len(b) - 1, len(b)]
        if "\n" in b:
            cut += [b.index("\n"), b.index("\n") + 1]
        for it in items:
            for c in sorted(set(cut)):
                v = b[:c] + it + b[c:]
                q = lua_quote(v)
                yield f"x = {q}"
                yield f"do do f({q}, t[{q}]) end end"
    # escapes of every length around the column where a wide literal is wrapped, at three indentation depths
    for k in range(96, 126):
        for it in ["é", "😀", "\x00", "\\", "\n", "\x7f", "é😀é"]:
            q = lua_quote("a" * k + it + "b" * 30)
            q2 = lua_quote("ab " * (k // 3) + "a" * (k % 3) + it + " cd" * 10)
            yield f"x = {q}"
            yield f"do do f({q}, {q2}) end end"
    # the same around the cut columns of the THIRD and FOURTH line of a literal without any word break (position bookkeeping carried from line to line)
    for k in list(range(218, 246)) + list(range(336, 356, 2)):
        for it in ["\n", "\\", "\x00", "é", "😀"]:
            q = lua_quote("A" * k + it + "B" * 40)
            yield f"x = {q}"
            yield f"do do f({q}) end end"


def comment_stress_programs():
    for ch in ["\x0c", "\x0b", "\x1c", "\x1d", "\x1e", "\x85", "\u2028", "\u2029", "\xa0", "\u3000", "\x00", "\t", ";", "]]", "--"]:
        yield f"x = 1\n-- a{ch}f()\ny = 2"
        yield f"x = 1 -- a{ch}f()\ny = 2"
        yield f"do\n\t-- a{ch}f()\n\t(g)()\nend"
        yield f"x = 1\n--[==[ a{ch}f() ]==] y = 2"
        yield f"x = 1\n--[==[ a\n{ch}f()\nb ]==]\ny = 2"
        yield f"return -- a{ch}f()\n  1"
        yield f"x = 1\n-- a{ch}f()"


def bracket_values(full: bool):
    """long-bracket-eligible values whose beginning, inside and end tempt the level choice: the inside rules out levels
    0..n-1, the end is a prefix of a closing bracket, the beginning is a newline (dropped by a long bracket) or a bracket"""
    alphabet = ["]", "=", "["]
    sufs = [""]
    layer = [""]
    for _ in range(4 if full else 3):
        layer = [a + c for a in layer for c in alphabet]
        sufs += layer
    insides = ["", "]]", "[[", "]]x]=]", "[=[x[[", "]]x]=]x]==]", "]=]"]
    heads = ["", "\n", "[", "]"] if full else ["", "\n", "["]
    for h in heads:
        for ins in insides:
            for suf in sufs:
                yield h + "l1\n" + ins + "\nl3\nl4\nl5\nl6" + suf


def bracket_stress_programs(full: bool):
    """every such value in every position where the text around a long bracket matters: plain, call argument, index, table key,
    leftmost operand inside an index or key, after a unary operator, as a multi-line comment"""
    for v in bracket_values(full):
        q = lua_quote(v)
        yield (f"x = {q}\nf({q}, t[{q}])\nt[{q} .. k][{q} == x] = {{[{q}] = 1, [{q} .. k] = {q}, [#{q}] = -{q}}}\n"
               f"g {q}\nt[({q}):len()] = f{q}\n")
        if "\n" != v[0] and "]======]" not in v:
            yield f"--[======[{v}]======]\nx = 1 --[======[{v}]======] y = 2\n"


def corpus_files() -> list[tuple[str, str]]:
    import glob
    out = []
    for f in sorted(glob.glob("/repo/lua-tests/*.lua") + glob.glob("/repo/test/test_files/*.lua")
                    + glob.glob("/repo/extensive_testing/*.lua")):
        try:
            out.append((f, open(f, encoding="utf-8", newline="").read()))
        except UnicodeDecodeError:
            continue
    return out


def random_programs(ctx: fw.Ctx, stream: str, n: int, depth_choices=(1, 2, 2, 3, 4), **cfg) -> list[str]:
    r = ctx.rng(stream)
    out = []
    for _ in range(n):
        c = gen.Cfg(max_depth=r.choice(depth_choices), max_stats=r.choice([2, 3, 4]), **cfg)
        out.append(gen.program(r, c))
    return out


def eval_programs(ctx: fw.Ctx, st: fw.Stream, srcs: list[str], styles: list[dict | None], *, check_tree: bool,
                  check_format: bool, fixpoint: bool = False, must_be_valid: bool = True, label: str = "") -> None:
    """The shared oracle.  For every source: the Spec must accept it (else generator bug); tumfl must parse it;
    (check_tree) abs(tumfl AST) == norm(Spec tree); (check_format) for every style, format() must return text that
    the Spec parses to the same normalised tree; (fixpoint) format(parse(out)) == out."""
    refs = refparse(srcs)
    todo = []
    for src, ref in zip(srcs, refs):
        if not ref.startswith("ok"):
            if must_be_valid:
                raise fw.InfraError(f"generator produced a chunk the Spec rejects: {src!r} -> {ref}")
            continue
        status, ast = tparse(src)
        case = {"kind": "program", "source": src}
        st.record(case, key=src)
        if status != "ok":
            st.fail(f"valid chunk not parsed: {status}: {ast}", case)
            continue
        if check_tree:
            try:
                mine = "ok " + absast.abs_chunk(ast)
            except absast.AbsError as e:
                st.fail(f"AST has an unexpected shape: {e}", case)
                continue
            if mine != ref:
                st.fail("parser built a different tree than the Lua grammar assigns", dict(case, expected=ref[:3000], got=mine[:3000]))
                continue
        if check_format:
            for sd in styles:
                sty = None if sd is None else (MinifiedStyle if sd == "min" else mkstyle(sd))
                fstatus, out = tformat(ast, sty)
                fcase = dict(case, style=sd)
                if fstatus != "ok":
                    st.fail(f"format raised or did not terminate: {fstatus} {out!r}", fcase)
                    continue
                todo.append((fcase, ref, out, sty))
    outs = refparse([t[2] for t in todo])
    for (fcase, ref, out, sty), got in zip(todo, outs):
        if got != ref:
            st.fail("formatted text denotes a different program" if got.startswith("ok") else "formatted text is not valid Lua",
                    dict(fcase, output=out[:4000], reparsed=got[:3000], expected=ref[:3000]))
            continue
        if fixpoint:
            s2, ast2 = tparse(out)
            if s2 != "ok":
                st.fail(f"tumfl cannot parse its own output: {s2}: {ast2}", dict(fcase, output=out[:4000]))
                continue
            f2, out2 = tformat(ast2, sty)
            if f2 != "ok" or out2 != out:
                st.fail("formatting the formatted text again changes it", dict(fcase, output=out[:4000], second=str(out2)[:4000]))


def classify_k(f: fw.Failure):
    return f.case.get("known") if isinstance(f.case, dict) else None


K_WITNESSES = {
    "K1": ["return (f())", "x = (f())", "g((...))", "t = {(f())}", "local a, b = (f())", "return a, (g:m())"],
    "K2": ["x = 5.", "x = 0x5.", "x = 3. .. 'a'"],
    "K3": ["x = 0x.8", "x = 0X.1p4"],
}


def run_witnesses(ctx: fw.Ctx, kids: list[str], styles: list, check_tree: bool = False, check_format: bool = True) -> None:
    """Known findings: each listed witness must still fail on the real code; the failures are tagged so that
    finish() reports them as KNOWN-FINDING and not as violations."""
    known = fw.load_known()
    for kid in kids:
        entry = next((k for k in known.get("findings", []) if k["id"] == kid and k["property"] == ctx.prop), None)
        if entry is None:
            continue
        st = ctx.stream(f"known-finding witnesses {kid}")
        eval_programs(ctx, st, entry["inputs"], styles, check_tree=check_tree, check_format=check_format)
        fails = len(st.failures)
        entry["_witness_fails"] = f"{fails} failing of {len(entry['inputs'])} listed inputs"
        for f in st.failures:
            f.case["known"] = kid
        # write back into the loaded structure for finish()
        fw._KNOWN_RUNTIME[(ctx.prop, kid)] = entry["_witness_fails"]


DEFAULT_STYLES = [None]
MIN_STYLES = ["min"]


def program_streams(ctx: fw.Ctx, styles: list, *, check_tree: bool, check_format: bool, fixpoint: bool = False,
                    n_quick: int = 400, n_thorough: int = 20000, adjacency: float = 0.0, pairs: bool = True) -> None:
    st = ctx.stream("G1 random programs")
    eval_programs(ctx, st, random_programs(ctx, "g1", ctx.n(n_quick, n_thorough)), styles,
                  check_tree=check_tree, check_format=check_format, fixpoint=fixpoint)
    if not ctx.quick:
        st = ctx.stream("G1 deep programs (depth up to 7)")
        eval_programs(ctx, st, random_programs(ctx, "g1deep", 600, depth_choices=(5, 6, 7)), styles,
                      check_tree=check_tree, check_format=check_format, fixpoint=fixpoint)
    if pairs:
        st = ctx.stream("G2 ordered pairs of statement forms, statement forms nested in block forms")
        progs = list(statement_pair_programs())
        eval_programs(ctx, st, progs, styles, check_tree=check_tree, check_format=check_format, fixpoint=fixpoint)
        st.exhaustive = True
    if adjacency > 0:
        st = ctx.stream("G2 operand x operator x operand adjacency")
        progs = list(adjacency_programs())
        if adjacency < 1:
            r = ctx.rng("adjacency")
            progs = r.sample(progs, int(len(progs) * adjacency))
        else:
            st.exhaustive = True
        eval_programs(ctx, st, progs, styles, check_tree=check_tree, check_format=check_format, fixpoint=fixpoint)
    if check_format:
        st = ctx.stream("G2 literal stress: values around the long-bracket and wrapping decisions")
        eval_programs(ctx, st, list(literal_stress_programs()), styles, check_tree=check_tree, check_format=True, fixpoint=fixpoint)
        st.exhaustive = True
        st = ctx.stream("G2 comment stress: comment texts with characters that only Python takes for blanks or line ends, followed by text that would be code")
        eval_programs(ctx, st, list(comment_stress_programs()), styles, check_tree=check_tree, check_format=True, fixpoint=fixpoint)
        st.exhaustive = True
        st = ctx.stream("G2 bracket stress: long-bracket values with tempting beginnings, insides and ends, in every position")
        eval_programs(ctx, st, list(bracket_stress_programs(not ctx.quick)), styles, check_tree=check_tree, check_format=True, fixpoint=fixpoint)
        st.exhaustive = True
    st = ctx.stream("G7 corpus (lua-tests, test_files) without known-finding features")
    files = corpus_files()
    feats = drive([("features", hx(s)) for _, s in files])
    keep = [(f, s) for (f, s), ft in zip(files, feats) if ft == "ok k1=false k2=false k3=false bytes=false cr=false"]
    st.notes["files"] = len(files)
    st.notes["files_without_known_finding_features"] = len(keep)
    if ctx.quick:
        keep = [k for k in keep if len(k[1]) < 40000]
    eval_programs(ctx, st, [s for _, s in keep], styles, check_tree=check_tree, check_format=check_format,
                  fixpoint=fixpoint, must_be_valid=False)


# =========================================================================== C01 C02 C03 C08 C15
def style_space(r: random.Random) -> dict:
    return dict(
        STATEMENT_SEPARATOR=r.choice(["\n", ";"]),
        INDENTATION=r.choice(["\t", "", "  ", "    ", " \t"]),
        ARGUMENT_SEPARATOR=r.choice([", ", ","]),
        INCLUDE_COMMENTS=r.random() < 0.5,
        COMMENT_SEP=r.choice([" ", "", "  "]),
        USE_SINGLE_QUOTE=r.random() < 0.5,
        USE_CALL_SHORTHAND=r.random() < 0.5,
        REMOVE_UNNECESSARY_CHARS=r.random() < 0.5,
        ADD_ALL_BRACKETS=r.random() < 0.3,
        ADD_CLOSE_BRACKETS=r.random() < 0.5,
        SPACE_IN_TABLE=r.random() < 0.5,
        NEWLINE_LIMIT=r.choice([0, 1, 4]),
        LINE_WIDTH=r.choice([0, 1, 7, 20, 40, 120]),
        BLOCK_SPACER=r.choice([0, 1, 5]),
        KEEP_SEMICOLON=r.random() < 0.5,
    )


BOOL_FIELDS = ["INCLUDE_COMMENTS", "USE_SINGLE_QUOTE", "USE_CALL_SHORTHAND", "REMOVE_UNNECESSARY_CHARS",
               "ADD_ALL_BRACKETS", "ADD_CLOSE_BRACKETS", "SPACE_IN_TABLE", "KEEP_SEMICOLON"]


def pairwise_styles(r: random.Random) -> list[dict]:
    """A pairwise-complete covering set over all option values (greedy), about 40-60 styles."""
    domains = {
        "STATEMENT_SEPARATOR": ["\n", ";"], "INDENTATION": ["\t", "", "  ", "    "], "ARGUMENT_SEPARATOR": [", ", ","],
        "COMMENT_SEP": [" ", "", "  "], "NEWLINE_LIMIT": [0, 1, 4], "LINE_WIDTH": [0, 1, 7, 20, 120],
        "BLOCK_SPACER": [0, 1, 5], **{b: [False, True] for b in BOOL_FIELDS},
    }
    keys = list(domains)
    need = {(a, va, b, vb) for i, a in enumerate(keys) for b in keys[i + 1:] for va in domains[a] for vb in domains[b]}
    out = []
    while need:
        best, best_gain = None, -1
        for _ in range(30):
            cand = {k: r.choice(v) for k, v in domains.items()}
            gain = sum(1 for (a, va, b, vb) in need if cand[a] == va and cand[b] == vb)
            if gain > best_gain:
                best, best_gain = cand, gain
        if best_gain == 0:
            a, va, b, vb = next(iter(need))
            best[a], best[b] = va, vb
        need = {(a, va, b, vb) for (a, va, b, vb) in need if not (best[a] == va and best[b] == vb)}
        out.append(best)
    return out


def t2_programs(ctx: fw.Ctx, n_quick: int, n_thorough: int) -> list[str]:
    r = ctx.rng("t2progs")
    progs = random_programs(ctx, "t2g1", ctx.n(n_quick, n_thorough))
    pairs = list(statement_pair_programs())
    lits = list(literal_stress_programs())
    brs = list(bracket_stress_programs(not ctx.quick))
    progs += r.sample(pairs, ctx.n(120, len(pairs))) + r.sample(lits, ctx.n(80, len(lits))) + r.sample(brs, ctx.n(60, len(brs)))
    progs += [src for k in ("K1", "K2", "K3") for src in K_WITNESSES[k]]
    return progs


def run_c01(ctx: fw.Ctx) -> None:
    program_streams(ctx, DEFAULT_STYLES, check_tree=False, check_format=True, adjacency=0.05 if ctx.quick else 1.0)
    run_witnesses(ctx, ["K1", "K2", "K3"], DEFAULT_STYLES)
    t2_format(ctx, [(p, None) for p in t2_programs(ctx, 250, 5000)])
    t2_units(ctx, ["findlevel", "sep", "wrap", "comment", "string"])


def run_c02(ctx: fw.Ctx) -> None:
    program_streams(ctx, MIN_STYLES, check_tree=False, check_format=True, adjacency=0.25 if ctx.quick else 1.0)
    run_witnesses(ctx, ["K1", "K2", "K3"], MIN_STYLES)
    t2_format(ctx, [(p, "min") for p in t2_programs(ctx, 250, 5000)])
    t2_units(ctx, ["findlevel", "sep", "comment", "string"])
    t2_passes(ctx)


def run_c03(ctx: fw.Ctx) -> None:
    program_streams(ctx, [], check_tree=True, check_format=False, adjacency=0.1 if ctx.quick else 1.0,
                    n_quick=600)
    st = ctx.stream("G2 binary x binary x unary operator combinations (source level)")
    progs = []
    for o1 in BINOPS_SRC:
        for o2 in BINOPS_SRC:
            progs.append(f"x = a {o1} b {o2} c")
            if not ctx.quick:
                for u in ["-", "not ", "#", "~"]:
                    progs += [f"x = {u}a {o1} b {o2} c", f"x = a {o1} {u}b {o2} c", f"x = a {o1} b {o2} {u}c"]
    for u in ["-", "not ", "#", "~"]:
        for o1 in BINOPS_SRC:
            progs += [f"x = {u}a {o1} b", f"x = a {o1} {u}b", f"x = {u} {u}a {o1} b"]
    eval_programs(ctx, st, progs, [], check_tree=True, check_format=False)
    st.exhaustive = True
    run_witnesses(ctx, ["K1", "K2"], [], check_tree=True, check_format=False)
    st_v = ctx.stream("the same text parsed again after the first tree was edited in place (by hand and by the dependency inliner): the second tree must be fresh")
    for src in ["x = 1 + 2 * 3\ny = f(x)", "local a = require('m')\nreturn a", "if a then b() end", "t = {1, 2, k = 3}"] + random_programs(ctx, "c03twice", ctx.n(20, 300)):
        case = {"kind": "program", "source": src}
        st_v.record(case, key=src)
        s1, a1 = tparse(src)
        if s1 != "ok":
            continue
        want = absast.abs_chunk(a1)
        a1.statements.clear()
        a1.returns = None
        with quiet():
            try:
                rootd = Path(tempfile.mkdtemp(prefix="tumfl-c03-"))
                (rootd / "main.lua").write_text(src, encoding="utf-8")
                (rootd / "m.lua").write_text("return 1", encoding="utf-8")
                try:
                    tumfl.resolve_recursive(rootd / "main.lua", [])
                except Exception:  # noqa: BLE001
                    pass
            finally:
                shutil.rmtree(rootd, ignore_errors=True)
        s2, a2 = tparse(src)
        if s2 != "ok" or a2 is a1 or absast.abs_chunk(a2) != want:
            st_v.fail("a second parse of the same text is affected by what was done to the first tree", case)
    t2_parse(ctx, t2_programs(ctx, 400, 8000) + progs[:: ctx.n(5, 1)])


def run_c08(ctx: fw.Ctx) -> None:
    r = ctx.rng("styles")
    styles = pairwise_styles(r)
    st = ctx.stream("G4 pairwise-complete style set x random programs")
    st.notes["styles"] = len(styles)
    progs = random_programs(ctx, "g1", ctx.n(30, 200))
    pairs_all = list(statement_pair_programs())
    progs += r.sample(pairs_all, ctx.n(40, 400))
    # statements that begin with a bracket, with and without comments around them: the `;` guard must hold under every style
    progs += [p for p in pairs_all if "--" in p and ("\n(" in p or "] (" in p or "]] (" in p)][:: ctx.n(2, 1)]
    # deep indentation and long strings stress the wrapping code
    progs += ["do do do do x = 'aaaa bbbb cccc \\\\ dddd \\n eeee \\u{1f600} ffff gggg hhhh iiii' end end end end",
              "f(function() return a, b end, {1, 2, {3, 4, function() return 'x', [[y]] end}}, t[function() return a, b end])",
              "-- [[ c1\n--[==[ c2 ]] ]==]\nx = 1 -- c3\n--[[ multi\nline ]] y = 2"]
    progs += list(comment_stress_programs())
    eval_programs(ctx, st, progs, styles, check_tree=False, check_format=True)
    if not ctx.quick:
        st2 = ctx.stream("all 256 boolean combinations x fixed program set")
        fixed = random_programs(ctx, "fixed", 12) + progs[-3:]
        combos = []
        for bits in itertools.product([False, True], repeat=8):
            d = style_space(r)
            d.update(dict(zip(BOOL_FIELDS, bits)))
            combos.append(d)
        eval_programs(ctx, st2, fixed, combos, check_tree=False, check_format=True)
    st3 = ctx.stream("random styles x random programs")
    progs3 = random_programs(ctx, "g1b", ctx.n(150, 3000))
    for p in progs3:
        eval_programs(ctx, st3, [p], [style_space(r) for _ in range(2)], check_tree=False, check_format=True)
    run_witnesses(ctx, ["K1", "K2", "K3"], [style_space(r)])
    t2p = t2_programs(ctx, 150, 3000)
    t2_format(ctx, [(p, styles[i % len(styles)]) for i, p in enumerate(t2p)] + [(p, style_space(r)) for p in t2p])
    t2_units(ctx, ["findlevel", "sep", "wrap", "comment", "string"])
    t2_passes(ctx)


def run_c15(ctx: fw.Ctx) -> None:
    program_streams(ctx, MIN_STYLES, check_tree=False, check_format=True, fixpoint=True,
                    adjacency=0.1 if ctx.quick else 1.0)
    t2_format(ctx, [(p, "min") for p in t2_programs(ctx, 200, 4000)])
    t2_units(ctx, ["findlevel", "sep", "comment", "string"])


PROG_RULE = ("programs: random derivations of the manual's grammar rendered with random layout and comments (validated by the Lean Spec), "
             "all ordered pairs of statement forms, statement forms nested in block forms, operand x operator x operand adjacency, corpus files; "
             "oracle: Lean Spec parse of the source vs Lean Spec parse of tumfl's output (normalised); distinct = distinct source texts")

for pid, runner, extra in [
    ("C01", run_c01, "default style"),
    ("C02", run_c02, "minified style"),
    ("C03", run_c03, "tree built by tumfl's parser (through abs) vs tree of the Lean Spec parser"),
    ("C08", run_c08, "pairwise-complete style covering array and random styles"),
    ("C15", run_c15, "minified output parsed and minified again must be byte-identical"),
]:
    register(
        pid,
        run=runner,
        modules=["Tumfl.Props.C11"],
        obligations=["Tumfl.Props.C11_roundtrip", "Tumfl.Inst.brackets_sound_all"],
        extractors=["Brackets", "FmtTables", "LexTables", "Ladder"],
        tie_names=["T1:Brackets", "T1:FmtTables", "T1:LexTables", "T1:Ladder"] + (["T2:parse"] if pid == "C03" else ["T2:format"]),
        rule=PROG_RULE + "; " + extra,
        classify=classify_k,
        partial_hypotheses=["only the operator-bracketing core is proved so far; the remaining composition (lexer, statement parser, emit, layout) is covered by the oracle streams"],
    )
NOT_YET: dict[str, str] = {}


# =========================================================================== lexical oracle (C05 C07 C16 C20)
import re

from tumfl.lexer import Lexer

LUA_WS = " \t\n\r\f\v"
KW_TYPES = {t for t in TokenType if t.value.isalpha() and t.value not in ("name", "number", "eof", "string")}
_TOKRE = re.compile(r"\((kw|sym|name|str|num|eof)( [^@]*)? @ (\d+) (\d+) \(([0-9a-fc ]*)\)\)")


def parse_reflex(ans: str):
    """'ok (..) (..)' -> list of (kind, value, line, col, [comment texts])"""
    assert ans.startswith("ok ")
    out = []
    for m in _TOKRE.finditer(ans):
        kind, val, line, col, cm = m.groups()
        comments = [bytes.fromhex(h[1:]).decode("utf-8") for h in cm.split()]
        out.append((kind, (val or "").strip(), int(line), int(col), comments))
    return out


def tlex(src: str, typed: bool = False):
    """tumfl's token stream: ('ok', tokens) | ('lexer', e) | ('other', e)"""
    toks = []
    with quiet():
        try:
            lx = Lexer(src, typed)
            while True:
                t = lx.get_next_token()
                toks.append(t)
                if t.type == TokenType.EOF:
                    return "ok", toks
                if len(toks) > len(src) + 5:
                    return "other", RuntimeError("lexer does not advance")
        except LexerError as e:
            return "lexer", e
        except Exception as e:  # noqa: BLE001
            return "other", e


def tok_key(t: Token):
    if t.type == TokenType.EOF:
        return ("eof", "")
    if t.type == TokenType.NAME:
        return ("name", t.value)
    if t.type == TokenType.STRING:
        return ("str", " ".join(absast.units(t.value)))
    if t.type == TokenType.NUMBER:
        return ("num", absast.numval(*t.value))
    if t.type in KW_TYPES:
        return ("kw", t.value)
    return ("sym", t.value)


def spec_in_scope(toks) -> bool:
    """no raw byte >= 128, no code point beyond U+10FFFF, no surrogate in any string token"""
    for kind, val, *_ in toks:
        if kind == "str":
            for u in val.split():
                if u.startswith("B"):
                    return False
                c = int(u, 16)
                if c > 0x10FFFF or 0xD800 <= c <= 0xDFFF:
                    return False
    return True


def eval_lex(st: fw.Stream, srcs: list[str], *, values=True, positions=True, comments=True, meta: dict | None = None):
    """Compare tumfl's token stream with the Lean Spec lexer's on the same text."""
    answers = drive([("reflex", hx(s)) for s in srcs])
    for src, ans in zip(srcs, answers):
        case = {"kind": "lex", "source": src, **(meta or {})}
        status, toks = tlex(src)
        if status == "other":
            st.record(case, key=src)
            st.fail(f"lexer raised {type(toks).__name__}: {toks}", case)
            continue
        if not ans.startswith("ok"):
            st.record(case, key=src)
            # Lua rejects the text lexically: tumfl must raise LexerError
            if status == "ok":
                st.fail("text that Lua rejects lexically was tokenised without error", dict(case, spec=ans))
            continue
        ref = parse_reflex(ans)
        if not spec_in_scope(ref):
            st.record(case, key=src, nontrivial=False)
            if status == "ok":
                # out of tumfl's documented scope: must not be silently mis-decoded
                mine = [tok_key(t) for t in toks]
                if mine != [(k, v) for k, v, *_ in ref]:
                    st.fail("byte escape outside ASCII was accepted and decoded differently", dict(case, spec=ans[:500]))
            continue
        st.record(case, key=src)
        if status != "ok":
            st.fail(f"valid text rejected by the lexer: {toks}", case)
            continue
        if len(toks) != len(ref):
            st.fail("different number of tokens", dict(case, tumfl=[tok_key(t) for t in toks][:60], spec=ans[:1500]))
            continue
        for t, (kind, val, line, col, cms) in zip(toks, ref):
            if values and tok_key(t) != (kind, val):
                st.fail("token kind/value differs from what Lua reads", dict(case, tumfl=tok_key(t), spec=(kind, val), at=(line, col)))
                break
            if positions and kind != "eof" and (t.line, t.column) != (line, col):
                st.fail("token position does not designate its first character", dict(case, token=tok_key(t), tumfl_pos=(t.line, t.column), spec_pos=(line, col)))
                break
            if positions and kind == "eof":
                nl = src.count("\n") + 1
                if not (1 <= t.line <= nl):
                    st.fail("end-of-file token outside the text", dict(case, tumfl_pos=(t.line, t.column)))
                    break
            if comments:
                mine = [c.strip(LUA_WS) for c in t.comment]
                theirs = [c.strip(LUA_WS) for c in cms]
                if mine != theirs:
                    st.fail("comments attached to a token differ", dict(case, token=tok_key(t), at=(line, col), tumfl=mine, spec=theirs))
                    break


# =========================================================================== C05 string literals and comments
STR_ITEMS = ["a", "0", "9", "f", "F", "x", "u", "z", " ", "\t", "{", "}", "[", "]", "=", "-", "--", "--[[c]]", "--[==[",
             "\\a", "\\b", "\\f", "\\n", "\\r", "\\t", "\\v", "\\\\", "\\\"", "\\'", "\\\n", "\\z", "\\z ", "\\z\n\t ",
             "\\0", "\\9", "\\65", "\\065", "\\127", "\\128", "\\255", "\\256", "\\999",
             "\\x41", "\\x4a", "\\x7F", "\\x80", "\\xff", "\\x4", "\\xg1", "\\x",
             "\\u{41}", "\\u{0041}", "\\u{e9}", "\\u{4e2d}", "\\u{1F600}", "\\u{10FFFF}", "\\u{110000}", "\\u{7FFFFFFF}",
             "\\u{80000000}", "\\u{000000041}", "\\u{}", "\\u{4g}", "\\u{41", "\\u41", "\\u",
             "\\q", "\\1a", "\\ ", "\\", "\n", "\"", "'", "é", "中", "😀", "\x00", "\x7f", "\x1b",
             # characters that Python's str methods / `\d` / int() take for digits, letters or blanks and Lua does not
             "\u0663", "\uff11", "\u00b2", "\uff21", "\u00a0"]


def c05_literals(max_items: int, r: random.Random | None = None, sample: int | None = None):
    out = []
    for n in range(0, max_items + 1):
        combos = itertools.product(STR_ITEMS, repeat=n)
        for combo in combos:
            body = "".join(combo)
            for q in "\"'":
                out.append(q + body + q)
    if sample is not None and r is not None and len(out) > sample:
        out = r.sample(out, sample)
    return out


def c05_long_brackets():
    bodies = ["", "a", "\n", "\na", "\n\na", "a\n", "]", "]]", "]=]", "]==]", "[[", "[=[", "]=", "=]", "a]b]]c", "x]=]y]==]z",
              "\\n", "\\", "--", "\"'", "]\n]", " \n ", "é中😀", "\x00"]
    out = []
    for lvl in range(0, 5):
        op, cl = "[" + "=" * lvl + "[", "]" + "=" * lvl + "]"
        for b in bodies:
            out.append(op + b + cl)
            out.append(op + b)          # unterminated
        out.append(op)
    out += ["[=", "[==", "[=x", "[ [", "[", "[=]", "[]"]
    return out


def c05_comments():
    heads = ["--", "---", "--[", "--[=", "--[==", "--[=x", "--[ [", "--[]", "--[=]", "-- [[", "--\t[[", "--[[", "--[=[", "--[==[",
             "--[[ ]]", "--[[]]", "--[=[ ]] ]=]", "--[==[\n]==]", "--[[ a\nb ]]", "--[=[ ]=", "--[[ ]=]", "--[[ ] ]", "--]]", "--'", "--\"",
             "--[[\n--]]", "--[==[ ]=] ]] ]==]", "--[", "-- é中"]
    tails = ["", "\n", "\nx", " x\ny", "]]\nz", "\n--[[ c ]] y", " ]] w"]
    out = []
    for h in heads:
        for t in tails:
            out.append(h + t)
            out.append("a " + h + t)
    return out


def c05_codepoints(r: random.Random, n: int | None):
    """strings holding raw code points and the same code points as \\u{} escapes"""
    pts = [c for c in range(0, 0x110000) if not (0xD800 <= c <= 0xDFFF)]
    if n is not None:
        special = [0, 1, 9, 10, 13, 31, 32, 34, 39, 92, 126, 127, 128, 159, 160, 255, 256, 0x7FF, 0x800, 0xD7FF, 0xE000,
                   0xFFFD, 0xFFFF, 0x10000, 0x10FFFF, 0x2028, 0x2029, 0x85, 0x1c, 0x1d, 0x1e, 0x1f, 0xFEFF]
        pts = special + r.sample(pts, n)
    out = []
    for i in range(0, len(pts), 500):
        part = pts[i:i + 500]
        raw = "".join(chr(c) for c in part if c not in (10, 13, 34, 92))
        out.append('"' + raw + '"')
        out.append('"' + "".join("\\u{%x}" % c for c in part) + '"')
        out.append("[==[" + "".join(chr(c) for c in part if c != 13) + "]==]")
    return out


def run_c05(ctx: fw.Ctx) -> None:
    r = ctx.rng("c05")
    st = ctx.stream("quoted literals: all sequences of escape/neighbour items" + (" up to 2 items" if ctx.quick else " up to 3 items"))
    lits = c05_literals(2) if ctx.quick else c05_literals(3)
    eval_lex(st, lits, positions=False)
    st.exhaustive = True
    st.notes["item_alphabet"] = len(STR_ITEMS)
    if ctx.quick:
        st_s = ctx.stream("quoted literals: sample of 3- and 4-item sequences")
        more = []
        for _ in range(6000):
            k = r.choice([3, 4])
            q = r.choice("\"'")
            more.append(q + "".join(r.choice(STR_ITEMS) for _ in range(k)) + q)
        eval_lex(st_s, more, positions=False)
    st_t = ctx.stream("truncated literals: every prefix of every 0/1-item literal (and a sample of 2-item ones), alone and followed by line ends")
    base = c05_literals(1) + r.sample(c05_literals(2), ctx.n(300, 6000))
    trunc = sorted({lit[:k] + suf for lit in base for k in range(1, len(lit) + 1) for suf in ("", "\n", "\n\n", " ", "\r\n", "\n x")})
    eval_lex(st_t, trunc, positions=False)
    st2 = ctx.stream("long brackets level 0..4 with foreign closers, leading newline, unterminated, followed by line ends")
    lb = c05_long_brackets()
    eval_lex(st2, lb + ["x = " + s + " y" for s in lb] + [s + suf for s in lb for suf in ("\n", "\n\n", "\r\n")], positions=False)
    st2.exhaustive = True
    st3 = ctx.stream("comment opener shapes")
    eval_lex(st3, c05_comments(), positions=False)
    st3.exhaustive = True
    st4 = ctx.stream("code points raw and via \\u{}" + (" (boundaries + sample)" if ctx.quick else " (all 1112064 scalar values)"))
    eval_lex(st4, c05_codepoints(r, 3000 if ctx.quick else None), positions=False)
    st4.exhaustive = not ctx.quick
    st_h = ctx.stream("byte escapes read strictly AFTER a lenient lexer (ignore_unicode_errors=True) has read the same escape: still rejected")
    for lit in ['"\\200"', "'\\xC3'", '"a\\255b"', '"\\128\\xff"', '"\\u{D800}"']:
        with quiet():
            try:
                lx = Lexer("x = " + lit, ignore_unicode_errors=True)
                for _ in range(10):
                    if lx.get_next_token().type == TokenType.EOF:
                        break
            except Exception:  # noqa: BLE001
                pass
        eval_lex(st_h, [lit, "x = " + lit + " .. y"], positions=False, meta={"after_lenient_lexer_on": lit})
    st_h.exhaustive = True
    st5 = ctx.stream("random literals from the program generator")
    g = gen.ProgGen(r, gen.Cfg())
    rl = [g.string().text for _ in range(ctx.n(2000, 40000))]
    eval_lex(st5, rl, positions=False)
    t2_lex(ctx, lits + lb + c05_comments() + rl[:: 2])


register(
    "C05",
    run=run_c05,
    modules=["Tumfl.Props.C11"],
    obligations=["Tumfl.Props.C11_roundtrip"],
    rule="literal spellings built from an alphabet of escape forms and neighbour characters (exhaustive up to 2/3 items), long brackets, "
         "comment openers, code points; oracle: the Lean Spec lexer (llex.c rules) on the same text; a case is non-trivial if the Spec "
         "accepts it with an in-scope value or rejects it (tumfl must then raise LexerError); distinct = distinct literal texts",
    partial_hypotheses=["no theorem about the model scanner yet"],
)


# =========================================================================== C06 string values -> literals
def dh(s: str) -> int:
    import zlib
    return zlib.crc32(s.encode("utf-8", "surrogatepass"))


def T(tt=TokenType.NAME, v="x"):
    return Token(tt, v, 1, 1)


def string_contexts(v: str) -> list[tuple[str, A.Chunk]]:
    """the same String value in every position the property names"""
    S = lambda: A.String(T(TokenType.STRING, v), v)  # noqa: E731
    N = lambda n: A.Name(T(), n)  # noqa: E731
    stmts = {
        "operand": A.Assign(T(), [N("x")], [A.BinOp(T(), A.BinaryOperand.CONCAT, S(), N("y"))]),
        "call-argument": A.FunctionCall(T(), N("f"), [S()]),
        "call-two-arguments": A.FunctionCall(T(), N("f"), [S(), S()]),
        "method-call-argument": A.MethodInvocation(T(), N("o"), N("m"), [S()]),
        "index": A.Assign(T(), [A.Index(T(), N("t"), S())], [N("y")]),
        "table-key": A.Assign(T(), [N("x")], [A.Table(T(), [A.ExplicitTableField(T(), S(), N("y"))])]),
        "table-value": A.Assign(T(), [N("x")], [A.Table(T(), [A.NumberedTableField(T(), S()), A.NamedTableField(T(), N("k"), S())])]),
        "method-receiver": A.MethodInvocation(T(), S(), N("rep"), [A.Number(T(), False, "2")]),
        "index-leftmost-operand": A.Assign(T(), [A.Index(T(), N("t"), A.BinOp(T(), A.BinaryOperand.CONCAT, S(), N("k")))], [N("y")]),
        "table-key-leftmost-operand": A.Assign(T(), [N("x")], [A.Table(T(), [A.ExplicitTableField(
            T(), A.BinOp(T(), A.BinaryOperand.EQUALS, A.BinOp(T(), A.BinaryOperand.CONCAT, S(), N("k")), N("z")), N("y"))])]),
        "index-of-index": A.Assign(T(), [A.Index(T(), A.Index(T(), N("t"), S()), S())], [S()]),
        "return": None,
        "nested-blocks": None,
    }
    out = []
    for name, s in stmts.items():
        if name == "return":
            c = A.Chunk(T(), [], [S()])
        elif name == "nested-blocks":
            inner = A.Block(T(), [A.FunctionCall(T(), N("f"), [S(), N("a")])], None)
            for _ in range(3):
                inner = A.Block(T(), [inner], None)
            c = A.Chunk(T(), [inner], None)
        else:
            c = A.Chunk(T(), [s], None)
        c.parent(None)
        out.append((name, c))
    return out


C06_ALPHABET = ["a", " ", "\n", "\"", "'", "\\", "]", "[", "=", "\t", "é", "\x00", "0", "😀"]


def eval_ast_roundtrip(st: fw.Stream, cases: list[tuple[dict, A.Chunk, dict | str | None]]):
    """cases: (description, chunk AST, style). Oracle: Spec parse of format(chunk) == abs(chunk)."""
    todo = []
    for desc, ch, sd in cases:
        want = "ok " + absast.abs_chunk(ch)
        sty = None if sd is None else (MinifiedStyle if sd == "min" else mkstyle(sd))
        status, out = tformat(ch, sty)
        d = dict(desc, style=sd)
        d.setdefault("kind", "string")
        st.record(d, key=json.dumps(d, sort_keys=True, default=str))
        if status != "ok":
            st.fail(f"format raised or did not terminate: {status} {out!r}", d)
            continue
        todo.append((d, want, out))
    got = refparse([t[2] for t in todo])
    for (d, want, out), g in zip(todo, got):
        if g != want:
            st.fail("literal reads back as a different value" if g.startswith("ok") else "output is not valid Lua",
                    dict(d, output=out[:3000], reparsed=g[:2000], expected=want[:2000]))


def c06_styles(r: random.Random | None = None) -> list:
    out: list = [None, "min"]
    for q in (False, True):
        for nl in (0, 1, 4):
            for w in (0, 1, 7, 20, 120):
                out.append(dict(USE_SINGLE_QUOTE=q, NEWLINE_LIMIT=nl, LINE_WIDTH=w, USE_CALL_SHORTHAND=(w % 2 == 1 or nl == 1),
                                REMOVE_UNNECESSARY_CHARS=(nl == 0), INDENTATION="\t" if w != 20 else "    "))
    return out


def run_c06(ctx: fw.Ctx) -> None:
    r = ctx.rng("c06")
    styles = c06_styles()
    maxlen = 3 if ctx.quick else 4
    st = ctx.stream(f"all strings over the adversarial alphabet up to length {maxlen} x 2 base styles x contexts")
    values = ["".join(c) for n in range(0, maxlen + 1) for c in itertools.product(C06_ALPHABET, repeat=n)]
    cases = []
    for v in values:
        ctxs = string_contexts(v)
        # all contexts for short values, a rotating context for the rest (the literal text does not depend on it)
        pick = ctxs if len(v) <= 2 else [ctxs[dh(v) % len(ctxs)]]
        for name, ch in pick:
            for sd in (None, "min"):
                cases.append(({"value": v, "context": name}, ch, sd))
    eval_ast_roundtrip(st, cases)
    st.exhaustive = True
    st2 = ctx.stream("strings up to length 3 x quote preference x newline limit x line width")
    cases = []
    vals3 = [v for v in values if len(v) <= (2 if ctx.quick else 3)]
    for v in vals3:
        ctxs = string_contexts(v)
        for sd in styles[2:]:
            name, ch = ctxs[(dh(v) + sd["LINE_WIDTH"]) % len(ctxs)]
            cases.append(({"value": v, "context": name}, ch, sd))
    eval_ast_roundtrip(st2, cases)
    st3 = ctx.stream("random strings up to length 400 x styles x contexts")
    cases = []
    pool = C06_ALPHABET + ["b", "c", " ", " ", "\n", "]]", "]=]", "\\n", "\r", "\x7f", "\x1f", " ", " ", "中", "z", "9", "x41", "u{", "}"]
    for _ in range(ctx.n(500, 6000)):
        n = r.choice([1, 5, 10, 30, 80, 200, 400])
        v = "".join(r.choice(pool) for _ in range(n))
        if r.random() < 0.3:
            v = v.replace("\n", " ")
        name, ch = r.choice(string_contexts(v))
        cases.append(({"value": v, "context": name}, ch, r.choice(styles)))
    eval_ast_roundtrip(st3, cases)
    st_e = ctx.stream("values whose TEXT looks like escape sequences (a literal backslash followed by what would be an escape), alone and next to real control characters")
    cases = []
    looks = ["\\x1b", "\\x00", "\\27", "\\0", "\\065", "\\n", "\\z ", "\\u{41}", "\\\\x1b", "\\\n", "\\\"", "\\'", "\\\\", "\\"]
    ctrl = ["", "\x1b", "\x00", "\n", "1", "[0m", " "]
    for a in looks:
        for b_ in ctrl:
            for c_ in ctrl[:4]:
                v = c_ + a + b_
                name, ch = string_contexts(v)[dh(v) % len(string_contexts(v))]
                for sd in (None, "min"):
                    cases.append(({"value": v, "context": name}, ch, sd))
    eval_ast_roundtrip(st_e, cases)
    st_e.exhaustive = True
    st5 = ctx.stream("long-bracket values with tempting beginnings, insides and ends x every context x default/minified")
    cases = []
    for v in bracket_values(not ctx.quick):
        for name, ch in string_contexts(v):
            cases.append(({"value": v, "context": name}, ch, "min" if (dh(v) + dh(name)) % 2 else None))
    eval_ast_roundtrip(st5, cases)
    st5.exhaustive = True
    t2c = []
    for v in r.sample(values, ctx.n(400, 5000)) + [c[0]["value"] for c in cases[: ctx.n(100, 1000)]]:
        if "\r" in v or any(0xD800 <= ord(ch) <= 0xDFFF for ch in v):
            continue
        q = lua_quote(v)
        t2c.append((f"x = {q} .. y; f({q}); t[{q}] = {{[{q}] = 1}}; return ({q}):rep(2)", r.choice(styles)))
    t2_format(ctx, t2c)
    t2_units(ctx, ["findlevel", "wrap", "string"])
    if not ctx.quick:
        st4 = ctx.stream("all strings of length 5 over a reduced alphabet x default/minified")
        red = ["a", " ", "\n", "\"", "\\", "]", "=", "é"]
        cases = []
        for c in itertools.product(red, repeat=5):
            v = "".join(c)
            name, ch = (lambda cs: cs[dh(v) % len(cs)])(string_contexts(v))
            cases.append(({"value": v, "context": name}, ch, "min" if dh(v) % 2 else None))
        eval_ast_roundtrip(st4, cases)
        st4.exhaustive = True


register(
    "C06",
    run=run_c06,
    modules=["Tumfl.Props.C11"],
    obligations=["Tumfl.Props.C11_roundtrip"],
    rule="String nodes built directly with the value, placed in 13 syntactic contexts, formatted under styles varying quote preference, "
         "newline limit and line width; oracle: the Lean Spec reads the literal back and the whole tree is compared; distinct = (value, context, style)",
    partial_hypotheses=["no theorem about the model writer yet"],
)


# =========================================================================== C07 numerals
def numerals_upto(maxlen: int, dec_digits: str, hex_digits: str, k2: bool = False, k3: bool = False):
    """all numerals of the Lua grammar up to maxlen characters over the given digit alphabets"""
    out = set()

    def runs(alpha: str, lo: int, hi: int):
        for n in range(lo, hi + 1):
            for c in itertools.product(alpha, repeat=n):
                yield "".join(c)

    def exps(marks: str, budget: int):
        yield ""
        for m in marks:
            for sign in ("", "+", "-"):
                for d in runs("019", 1, max(0, budget - 1 - len(sign))):
                    if 1 + len(sign) + len(d) <= budget:
                        yield m + sign + d

    for prefix, alpha, marks in (("", dec_digits, "eE"), ("0x", hex_digits, "pP"), ("0X", hex_digits, "pP")):
        room = maxlen - len(prefix)
        if room <= 0:
            continue
        for ip in runs(alpha, 0, room):
            for dot in ("", "."):
                fr_hi = room - len(ip) - len(dot) if dot else 0
                for fp in (runs(alpha, 0, max(fr_hi, 0)) if dot else [""]):
                    if not ip and not fp:
                        continue
                    if not ip and not prefix and not dot:
                        continue
                    mant = ip + dot + fp
                    for e in exps(marks, room - len(mant)):
                        s = prefix + mant + e
                        if len(s) > maxlen:
                            continue
                        if dot and not fp and not e and not k2:
                            continue
                        if prefix and not ip and not k3:
                            continue
                        if not prefix and not ip and not dot:
                            continue
                        out.add(s)
    return sorted(out)


BOUNDARY_NUMERALS = [
    "9223372036854775807", "9223372036854775808", "18446744073709551615", "18446744073709551616",
    "0x7fffffffffffffff", "0x8000000000000000", "0xffffffffffffffff", "0x10000000000000000", "0x10000000000000001",
    "0xFFFFFFFFFFFFFFFFFF", "0x1p-1074", "0x0.8p-1073", "0x1.fffffffffffffp1023", "4.9e-324", "2.2250738585072014e-308",
    "1.7976931348623157e308", "1e309", "1e-400", "0e0", "0x0p0", "00012", "0x0000A", "1E+0", "1e-0", "0.1e1", "00.500",
    "3.14159265358979323846264338327950288", "0x3.243F6A8885A308D313198A2E03707344A4093822299F", "1e0000000000001",
    "0xAbCdEf", "0XaBc.DeFp+10", "12345678901234567890123456789012345678901234567890", ".0", "0.", "0x.0p0", "1e+308", "5e-1",
]


def numeral_contexts(n: str) -> list[str]:
    return [f"x = {n}", f"x = {n} .. 'a'", f"x = {n} or y", f"t = {{[{n}] = {n}, {n}}}", f"x = -{n} ^ {n}",
            f"return {n}", f"f({n}, {n})", f"for i = {n}, {n} do end", f"x = {n} and{n}" if False else f"x = {n} == {n}"]


def run_c07(ctx: fw.Ctx) -> None:
    r = ctx.rng("c07")
    if ctx.quick:
        nums = numerals_upto(5, "019", "09aF")
        desc = "all numerals up to 5 characters over the reduced alphabet 0 1 9 / 0 9 a F"
    else:
        nums = numerals_upto(6, "019", "09aF") + numerals_upto(4, "0123456789", "0123456789abcdefABCDEF")
        nums = sorted(set(nums))
        desc = "all numerals up to 6 characters over the reduced alphabet and up to 4 over the full alphabet"
    st = ctx.stream(desc + " (without the K2/K3 forms)")
    progs = []
    for n in nums:
        cs = numeral_contexts(n)
        progs.append(cs[0])
        progs.append(cs[1 + dh(n) % (len(cs) - 1)])
    eval_programs(ctx, st, progs, [None, "min"], check_tree=True, check_format=True)
    st.exhaustive = True
    st.notes["numerals"] = len(nums)
    st2 = ctx.stream("boundary values and random long digit strings x all contexts")
    rnd = []
    for _ in range(ctx.n(150, 3000)):
        hexa = r.random() < 0.4
        alpha = "0123456789abcdefABCDEF" if hexa else "0123456789"
        ip = "".join(r.choice(alpha) for _ in range(r.choice([1, 3, 17, 20, 40, 400])))
        fp = "." + "".join(r.choice(alpha) for _ in range(r.choice([1, 2, 30]))) if r.random() < 0.5 else ""
        e = (r.choice("pP" if hexa else "eE") + r.choice(["", "+", "-"]) + str(r.randint(0, 2000))) if r.random() < 0.5 else ""
        rnd.append(("0x" if hexa else "") + ip + fp + e)
    b = [n for n in BOUNDARY_NUMERALS if not (n.endswith(".") and "p" not in n.lower() and "e" not in n.lower())]
    progs = [c for n in b + rnd for c in numeral_contexts(n) if not (n.lower().startswith("0x.") )]
    eval_programs(ctx, st2, progs, [None, "min"], check_tree=True, check_format=True)
    run_witnesses(ctx, ["K2", "K3"], [None, "min"])
    t2n = [f"x = {n} .. {n}, {{{n}}}" for n in r.sample(nums, ctx.n(500, len(nums))) + b + ["5.", "0x.8", "0x5.", "1.e2"]]
    t2_format(ctx, [(p, sd) for p in t2n for sd in (None, "min")])
    t2_lex(ctx, [f"{n}" for n in nums[:: ctx.n(3, 1)]] + ["0x", "1e", "1e+", "3f", "1..2", "0x.p1", "1.", ".e1", "0xep", "0Xa.P-", "1e5e3"])


register(
    "C07",
    run=run_c07,
    modules=["Tumfl.Props.C11"],
    obligations=["Tumfl.Props.C11_roundtrip"],
    classify=classify_k,
    rule="numerals enumerated from the Lua numeral grammar (exhaustive up to a length over digit alphabets), boundary values, random long "
         "digit strings, each in several syntactic contexts and both styles; oracle: kind and exact rational value computed by the Lean Spec "
         "from source and from output; distinct = distinct program texts",
    partial_hypotheses=["no theorem about the model numeral scanner/printer yet"],
)


# =========================================================================== C16 positions, C20 comments
def relaid_programs(ctx: fw.Ctx, stream: str, n: int, comments: float) -> list[str]:
    r = ctx.rng(stream)
    out = []
    for _ in range(n):
        c = gen.Cfg(max_depth=r.choice([1, 2, 3]), max_stats=r.choice([2, 3, 4]), comments=comments)
        out.append(gen.program(r, c))
    return out


def mutate_text(r: random.Random, src: str) -> str:
    """character-level damage: delete, duplicate or replace a character, or cut the text"""
    if not src:
        return src
    i = r.randrange(len(src))
    x = r.random()
    if x < 0.3:
        return src[:i] + src[i + 1:]
    if x < 0.5:
        return src[:i] + src[i] + src[i:]
    if x < 0.8:
        return src[:i] + r.choice("()[]{}=,;.:'\"-\\\n x1e+") + src[i + 1:]
    return src[:i]


def check_error_tokens(st: fw.Stream, items: list[tuple[str, ParserError, dict]]) -> None:
    """the token attached to a ParserError must be a real token of the text (C16, C09)"""
    answers = drive([("reflex", hx(src)) for src, _, _ in items])
    for (src, e, case), ans in zip(items, answers):
        t = e.token
        mine = []
        with quiet():
            try:
                lx = Lexer(src)
                while True:
                    x = lx.get_next_token()
                    mine.append((x.type, x.line, x.column))
                    if x.type == TokenType.EOF:
                        break
            except Exception:  # noqa: BLE001  (a lexical error further on: compare with what was lexed)
                pass
        if (t.type, t.line, t.column) not in mine:
            st.fail("ParserError carries a token that is not a token of the text", dict(case, token=(str(t.type), t.line, t.column)))
            continue
        if ans.startswith("ok") and t.type != TokenType.EOF:
            ref = {(l, c) for _, _, l, c, _ in parse_reflex(ans)}
            if (t.line, t.column) not in ref:
                st.fail("ParserError position is not the start of a token", dict(case, token=(str(t.type), t.line, t.column)))


def run_c16(ctx: fw.Ctx) -> None:
    st = ctx.stream("generated programs with random blanks, tabs, comments, multi-line literals, shebang")
    progs = relaid_programs(ctx, "c16", ctx.n(600, 10000), 0.25)
    eval_lex(st, progs, values=False, comments=False)
    st2 = ctx.stream("corpus files")
    eval_lex(st2, [s for _, s in corpus_files() if "\r" not in s and (not ctx.quick or len(s) < 60000)], values=False, comments=False)
    st_big = ctx.stream("very long lines and very many lines: columns and lines beyond 2^16 (a packed or narrowed position shows only there)")
    long_str = "'" + "a" * 70000 + "'"
    eval_lex(st_big, [f"x = {long_str} y = 2 z = 3\nw = 4", "--" + "c" * 66000 + "\nx = 1", "x = 1" + " " * 65540 + "y = 2 z = 3",
                      "\n" * 66000 + "x = 1\ny = 2", "x = [[" + "\n" * 65600 + "]] y = 2\nz = 3"], values=False, comments=False)
    st_big.exhaustive = True
    st3 = ctx.stream("position of the ParserError token on damaged programs")
    r = ctx.rng("c16m")
    items = []
    for p in progs[: ctx.n(400, 5000)]:
        m = mutate_text(r, p)
        status, e = tparse(m)
        case = {"kind": "program", "source": m}
        st3.record(case, key=m, nontrivial=(status == "parser"))
        if status == "parser":
            items.append((m, e, case))
    check_error_tokens(st3, items)
    st3.notes["parser_errors"] = len(items)
    t2_lex(ctx, progs[: ctx.n(300, 5000)] + [m for m, _, _ in items])
    t2_parse(ctx, [m for m, _, _ in items])
    st4 = ctx.stream("positions under the constructor options (typed, ignore_unicode_errors) with characters the options concern")
    from tumfl.parser import Parser
    specials = ["\udce9", "\udc80\udcff", "\ud800", "é", "\x00"]
    tmpls = ['local s = "caf{X}" .. .. x', "-- c{X}c\nx = = 1", 'x = "{X}"; y = "{X}{X}" z w', "f('{X}', [[{X}\n]]) ) ", "x = 1 -- {X}\n y z"]
    for tm in tmpls:
        for sp in specials:
            src = tm.replace("{X}", sp)
            plain = tm.replace("{X}", "?" * len(sp))
            for typed in (False, True):
                for iu in (False, True):
                    case = {"kind": "options", "source": src.encode("utf-8", "surrogatepass").hex(), "typed": typed, "ignore_unicode_errors": iu}
                    st4.record(case, key=json.dumps(case, sort_keys=True))
                    got, want = option_error_pos(src, typed, iu), option_error_pos(plain, typed, iu)
                    if got[0] == "parser" and want[0] == "parser" and got != want:
                        st4.fail("the position of the ParserError token depends on characters inside strings/comments", dict(case, got=got, want=want))
                    elif got[0] == "other":
                        st4.fail(f"parse raised {got[1]}", case)
    st4.exhaustive = True


def option_error_pos(src: str, typed: bool, iu: bool):
    from tumfl.parser import Parser
    with quiet():
        try:
            p = Parser(src, typed=typed, ignore_unicode_errors=iu)
            p.parse_chunk()
            p._assert(TokenType.EOF)  # noqa: SLF001
            return ("ok",)
        except ParserError as e:
            return ("parser", e.token.type.name, e.token.line, e.token.column)
        except LexerError as e:
            return ("lexer", e.line, e.column)
        except Exception as e:  # noqa: BLE001
            return ("other", type(e).__name__)


def run_c20(ctx: fw.Ctx) -> None:
    st = ctx.stream("generated programs with comments of every shape in the gaps")
    progs = relaid_programs(ctx, "c20", ctx.n(500, 10000), 0.6)
    eval_lex(st, progs, positions=False)
    st2 = ctx.stream("every comment shape in every gap of fixed statements")
    shapes = ["--\n", "-- c\n", "--c", "--[[ c ]]", "--[==[ c ]==]", "--[[\n multi\n]]", "--[ not long\n", "--[= not long\n", "--[==x\n",
              "-- 'q\n", "-- \"q\n", "-- [[ x ]]\n", "--[[ ]=] ]]", "--[=[ ]] ]=]", "--- dash\n", "--[[--]]", "--]] x\n", "-- é中\n"]
    stmts = [["x", "=", "1"], ["local", "a", "<", "const", ">", "=", "f", "(", "'s'", ",", "...", ")"], ["return", "a", "..", "b"],
             ["t", ".", "k", "[", "1", "]", ":", "m", "{", "}"], ["for", "i", "=", "1", ",", "2", "do", "end"], ["::", "l", "::"]]
    cases = []
    for toks in stmts:
        for gap in range(len(toks) + 1):
            for sh in shapes:
                parts = list(toks)
                parts.insert(gap, sh)
                cases.append(" ".join(parts))
                if gap < len(toks):
                    parts2 = list(toks)
                    parts2.insert(gap, sh + " " + shapes[(gap + 3) % len(shapes)])
                    cases.append(" ".join(parts2))
    eval_lex(st2, cases, positions=False)
    st2.exhaustive = True
    st_c = ctx.stream("comment texts with characters that only Python's str methods take for line ends or blanks (FF VT FS GS RS NEL LS PS NBSP U+3000 NUL CR-free), short and long, followed by code")
    ccases = []
    for ch in ["\x0c", "\x0b", "\x1c", "\x1d", "\x1e", "\x85", "\u2028", "\u2029", "\xa0", "\u3000", "\x00", "\t", "\x7f"]:
        ccases += [f"x = 1 --page{ch}break here\ny = 2", f"--{ch}\nx = 1", f"-- a{ch}\nreturn x", f"--[[ a{ch}b ]] x = 1", f"--[==[ l1{ch}\n{ch}l2 ]==]\nx = 1",
                   f"f(a, -- c{ch}d\n b)", f"x = 1 -- last{ch}line"]
    eval_lex(st_c, ccases, positions=False)
    st_c.exhaustive = True
    st_s = ctx.stream("comment-like text inside string literals (a token must not be swallowed by a comment), next to real comments")
    lits = ['"--"', "'-- c'", '"--[[ c ]]"', "[[ -- c ]]", "[==[ --[[ c ]] ]==]", '"a\\z   --[[b]]c"', '"a\\z --b"', "'x\\z\n  -- q\n  r'", '"\\z--[==[" .. "]==]"',
            '"a" --[[ real ]] .. "--not"', "'\\z' -- real\n"]
    scases = []
    for lit in lits:
        for sh in shapes[:6]:
            scases += [f"x = {lit} {sh} y = 1", f"{sh} f({lit}, {lit}) {sh}", f"t[{lit}] = {lit} {sh}"]
    eval_lex(st_s, scases, positions=False)
    st_s.exhaustive = True
    st_h = ctx.stream("a lexer run that fails while comments are pending, followed by a run on a valid text: nothing may leak from one Lexer to the next")
    bad = ["-- first\n--[==[ never closed ]=]", "-- a\n-- b\n'unterminated", "--[[ x ]] --[[ y ]] \"open", "-- only a comment", "x = 1 -- trailing\n--[=[ open"]
    good = ["x = 1", "-- own\nreturn x", "f() --[[ t ]]"]
    for b_ in bad:
        for g_ in good:
            with quiet():
                try:
                    lx = Lexer(b_)
                    for _ in range(50):
                        if lx.get_next_token().type == TokenType.EOF:
                            break
                except TumflError:
                    pass
                except Exception:  # noqa: BLE001
                    pass
            eval_lex(st_h, [g_], positions=False, meta={"after_failed_text": b_})
    st_h.exhaustive = True
    st3 = ctx.stream("corpus files without known-finding numerals")
    files = [s for _, s in corpus_files() if "\r" not in s and (not ctx.quick or len(s) < 60000)]
    feats = drive([("features", hx(s)) for s in files])
    eval_lex(st3, [s for s, ft in zip(files, feats) if "k2=false k3=false bytes=false" in ft], positions=False)
    t2_lex(ctx, progs[: ctx.n(300, 5000)] + cases[:: ctx.n(3, 1)])


for pid, runner, rule in [
    ("C16", run_c16, "token streams of generated programs (random layout, comments, multi-line strings/comments, shebang) and corpus files; oracle: "
                     "(line, column) of every token from the Lean Spec lexer; for damaged programs the ParserError token must be a token of the text at a token start"),
    ("C20", run_c20, "token streams with comments of 18 shapes in every gap; oracle: comments the Lean Spec lexer attaches to each token (text compared up to "
                     "surrounding blanks), token kinds/values, end-of-file token included"),
]:
    register(pid, run=runner, modules=["Tumfl.Props.C11"], obligations=["Tumfl.Props.C11_roundtrip"], rule=rule + "; distinct = distinct source texts",
             partial_hypotheses=["no theorem about the model lexer yet"])


# =========================================================================== C13 statement-leading comments
COMMENT_TEXTS = ["", "c", "x = 1", "[[", "]]", "[=[ k ]=]", "--", "- -", "'q", "\"q", "end", "]==]", "é中", "a\tb", "[", "[=", "=[",
                 "[[ ]]", "TODO: (x)", "#!/bin/sh", "\\n", "--[[", "]] --", "{ }",
                 # characters that Python's str.splitlines / str.isspace treat specially but that are ordinary comment text for Lua
                 "a\x0cb", "a\x0bb", "a\x1cb", "a\x1db", "a\x1eb", "a\x85b", "a\u2028b", "a\u2029b", "a\xa0b", "a\x00b"]
MULTI_TEXTS = ["l1\nl2", "a\n\nb", "[[\nx", "]=]\ny", "x\n]]", "--\n--", "a\n  indented\n\tb", "l1\x0cx\nl2\u2028y"]


def comment_spellings(r: random.Random, text: str) -> str | None:
    """a source spelling of a comment with the given text (None if none exists)"""
    opts = []
    if "\n" not in text:
        head = "--" if not (text.startswith("[") and text[1:].lstrip("=").startswith("[")) else "-- "
        opts.append(head + r.choice(["", " ", "  "]) + text + r.choice(["", " "]) + "\n")
    for lvl in range(0, 4):
        close = "]" + "=" * lvl + "]"
        if (text + close).find(close) == len(text):
            opts.append("--[" + "=" * lvl + "[" + r.choice(["", " ", "\n"]) + text + r.choice(["", " "]) + close + r.choice([" ", "\n"]))
    return r.choice(opts) if opts else None


def marker_statements(k: int) -> list[tuple[str, str]]:
    """statement forms whose first name token is the unique marker m<k>"""
    m = f"m{k}"
    return [(m, f"{m} = 1"), (m, f"{m}()"), (m, f"{m}:go(1)"), (m, f"{m}.f.g = 2"), (m, f"local {m}"), (m, f"local {m} <const> = 1"),
            (m, f"while {m} do end"), (m, f"repeat until {m}"), (m, f"if {m} then elseif y then else end"), (m, f"for {m} = 1, 2 do end"),
            (m, f"for {m}, v in p do end"), (m, f"function {m}.a:b() end"), (m, f"local function {m}() end"), (m, f"goto {m}"),
            (m, f"::{m}::"), (m, f"do {m}() end"), (m, f"{m}'s'"), (m, f"{m}{{}}"), (m, f"({m})()"), (m, f"({m}).x = 1"),
            # statements that still begin with a bracket after parsing (the parser drops the brackets of the two above)
            (m, f"({m} or g)(1)"), (m, f"({m} .. 's'):upper()"), (m, f"({m} or t).x = 1"),
            # statements without a name of their own: only text, count and order of their comments can be checked
            (None, ";"), (None, "; ;"), (None, "do end"), (None, "do ; end")]


def c13_case(r: random.Random, nstat: int, nest: int):
    """returns (source, expected [(comment text, marker)])"""
    expected = []
    counter = itertools.count(1)

    def stmts(n: int, depth: int) -> str:
        out = []
        for _ in range(n):
            k = next(counter)
            forms = marker_statements(k)
            m, s = r.choice(forms)
            will_wrap = depth > 0 and r.random() < 0.4
            needs_semi = (bool(out) or will_wrap) and s.startswith("(")
            if m is None and r.random() < 0.7:
                m, s = forms[0]
            if will_wrap:
                inner = stmts(r.randint(1, 2), depth - 1)
                k2 = next(counter)
                wrap = r.choice([f"do {inner} end", f"while w{k2} do {inner} end", f"if w{k2} then {inner} end",
                                 f"function w{k2}() {inner} end", f"repeat {inner} until w{k2}", f"for w{k2} = 1, 2 do {inner} end"])
                out.append(wrap)
            if needs_semi:
                out[-1] += ";"   # Lua needs it in front of a statement that starts with `(`
            ncom = r.choice([0, 1, 1, 2, 3])
            pre = ""
            for _ in range(ncom):
                text = r.choice(COMMENT_TEXTS + MULTI_TEXTS)
                sp = comment_spellings(r, text)
                if sp is None:
                    continue
                pre += sp
                expected.append((text.strip(LUA_WS), m))
            out.append(pre + s)
        return "\n".join(out)

    return stmts(nstat, nest), expected


def out_comments(ans: str):
    """comments of a formatted text with the first name token at or after the token they are attached to"""
    toks = parse_reflex(ans)
    res = []
    for i, (kind, val, line, col, cms) in enumerate(toks):
        if not cms:
            continue
        nxt = next((v for k, v, *_ in toks[i:i + 4] if k == "name"), None)
        for c in cms:
            res.append((c.strip(LUA_WS), nxt))
    return res


def run_c13(ctx: fw.Ctx) -> None:
    r = ctx.rng("c13")
    st = ctx.stream("statement forms x 0..3 leading comments x comment shapes x nesting, default style")
    st_off = ctx.stream("same programs with INCLUDE_COMMENTS = False")
    cases = []
    for _ in range(ctx.n(700, 12000)):
        src, exp = c13_case(r, r.randint(1, 4), r.choice([0, 1, 2, 3]))
        cases.append((src, exp))
    # every statement form x every comment text, once
    k = 0
    for text in COMMENT_TEXTS + MULTI_TEXTS:
        for m, s in marker_statements(7):
            k += 1
            if ctx.quick and (k + k // 27) % 3:   # a third of the pairs, rotating so that every form meets every third text
                continue
            sp = comment_spellings(r, text)
            cases.append((f"z0 = 0\n{sp}{s}" if not s.startswith("(") else f"z0 = 0;\n{sp}{s}", [(text.strip(LUA_WS), m)]))
            if s.startswith("("):
                # the comment sits on the `;` that Lua needs in front of a statement starting with `(`
                cases.append((f"z0 = 0\n{sp};{s}", [(text.strip(LUA_WS), None)]))
    refs = refparse([c[0] for c in cases])
    outs, outs_off = [], []
    NoComments = mkstyle(dict(INCLUDE_COMMENTS=False))
    import time as _time
    t_loop = _time.time()
    for (src, exp), ref in zip(cases, refs):
        if not ref.startswith("ok"):
            raise fw.InfraError(f"C13 generator produced an invalid program: {src!r} {ref}")
        if _time.time() - t_loop > (90 if ctx.quick else 1500):
            # on the unchanged tree this loop takes a few seconds; code that gets slower with every call (state growing from parse to parse) must not
            # keep the check from reporting what the cases so far show
            st.notes["stopped early: parse/format became slow"] = True
            break
        case = {"kind": "comments", "source": src, "expected": exp}
        st.record(case, key=src, nontrivial=bool(exp))
        status, ast = tparse(src)
        if status != "ok":
            st.fail(f"valid chunk not parsed: {status} {ast}", case)
            continue
        fs, out = tformat(ast, None)
        if fs != "ok":
            st.fail(f"format failed: {fs} {out!r}", case)
            continue
        outs.append((case, out))
        fs2, out2 = tformat(ast, NoComments)
        st_off.record(case, key=src, nontrivial=bool(exp))
        if fs2 == "ok":
            outs_off.append((case, out2))
        else:
            st_off.fail(f"format failed: {fs2} {out2!r}", case)
    answers = drive([("reflex", hx(o)) for _, o in outs])
    for (case, out), ans in zip(outs, answers):
        if not ans.startswith("ok"):
            st.fail("output does not lex", dict(case, output=out, spec=ans))
            continue
        got = out_comments(ans)
        if got and got[0][0] == "tumfl":
            got = got[1:]
        exp = [tuple(e) for e in case["expected"]]
        if [g[0] for g in got] != [e[0] for e in exp]:
            st.fail("leading comments do not appear exactly once, in order, with the same text", dict(case, output=out, got=got))
        elif any(e[1] is not None and g[1] != e[1] for g, e in zip(got, exp)):
            st.fail("a comment is not placed before its statement", dict(case, output=out, got=got))
    answers = drive([("reflex", hx(o)) for _, o in outs_off])
    for (case, out), ans in zip(outs_off, answers):
        if not ans.startswith("ok"):
            st_off.fail("output does not lex", dict(case, output=out, spec=ans))
            continue
        got = [g for g in out_comments(ans) if g[0] != "tumfl"]
        if got:
            st_off.fail("a source comment appears although comments are switched off", dict(case, output=out, got=got))
    # known finding K5: blanks directly before a line break inside a multi-line comment
    entry = next((k for k in fw.load_known().get("findings", []) if k["id"] == "K5" and k["property"] == "C13"), None)
    if entry:
        stw = ctx.stream("known-finding witnesses K5")
        srcs = entry["inputs"]
        answers = []
        for src in srcs:
            status, ast = tparse(src)
            fs, out = tformat(ast, None) if status == "ok" else ("x", "")
            answers.append((src, fs, out))
        lexed = drive([("reflex", hx(o)) for _, _, o in answers])
        src_lexed = drive([("reflex", hx(s_)) for s_ in srcs])
        for (src, fs, out), ans, sans in zip(answers, lexed, src_lexed):
            case = {"kind": "comments-k5", "source": src, "known": "K5"}
            stw.record(case, key=src)
            want = [g[0] for g in out_comments(sans)] if sans.startswith("ok") else None
            got = [g[0] for g in out_comments(ans) if g[0] != "tumfl"] if ans.startswith("ok") else None
            if fs != "ok" or got != want:
                stw.fail("a blank directly before a line break inside a multi-line comment is lost", dict(case, output=out, got=got, want=want))
        fw._KNOWN_RUNTIME[("C13", "K5")] = f"{len(stw.failures)} failing of {len(srcs)} listed inputs"
    t2_format(ctx, [(c[0], None) for c in cases[:: ctx.n(4, 1)]] + [(c[0], dict(INCLUDE_COMMENTS=False, COMMENT_SEP="")) for c in cases[:: ctx.n(9, 2)]]
              + [(c[0], dict(COMMENT_SEP="", STATEMENT_SEPARATOR=";")) for c in cases[:: ctx.n(9, 2)]])
    t2_parse(ctx, [c[0] for c in cases[:: ctx.n(4, 1)]])


register(
    "C13",
    run=run_c13,
    classify=classify_k,
    modules=["Tumfl.Props.C11"],
    obligations=["Tumfl.Props.C11_roundtrip"],
    rule="programs whose statements carry unique marker names, with 0..3 leading comments per statement (23 single-line and 7 multi-line texts, "
         "short and long spellings of level 0..3) at nesting depth 0..3; oracle: comments of the formatted text as read by the Lean Spec lexer - same "
         "texts, same order, each once, each attached in front of its statement's marker; with INCLUDE_COMMENTS off: none; non-trivial = has >= 1 comment",
    partial_hypotheses=["no theorem yet"],
)


# =========================================================================== malformed inputs (C09 C10 C19)
ALL_TOKEN_TEXTS = sorted(gen.KEYWORDS) + ["+", "-", "*", "/", "%", "^", "#", "==", "~=", "<=", ">=", "<", ">", "=", "(", ")", "{", "}",
                                           "[", "]", ";", ":", "::", ",", ".", "..", "...", "&", "|", "~", "<<", ">>", "//",
                                           "nm", "12", "0x1f", "1.5e3", "'str'", "[[long]]"]


def seed_token_lists(ctx: fw.Ctx, stream: str, n: int) -> list[list[str]]:
    r = ctx.rng(stream)
    out = []
    for _ in range(n):
        g = gen.ProgGen(r, gen.Cfg(max_depth=r.choice([1, 2, 3]), max_stats=3, unicode=False))
        out.append([t.text for t in g.chunk()])
    out += [src.replace("(", " ( ").replace(")", " ) ").replace(",", " , ").split() for src in STAT_FORMS if "'" not in src and "[[" not in src]
    return out


def token_mutations(toks: list[str], r: random.Random, budget: int | None) -> list[str]:
    """single-token deletions, duplications, swaps and replacements by every other token kind"""
    muts = []
    n = len(toks)
    for i in range(n):
        muts.append(toks[:i] + toks[i + 1:])
        muts.append(toks[:i] + [toks[i]] + toks[i:])
        if i + 1 < n:
            muts.append(toks[:i] + [toks[i + 1], toks[i]] + toks[i + 2:])
        for rep in ALL_TOKEN_TEXTS:
            if rep != toks[i]:
                muts.append(toks[:i] + [rep] + toks[i + 1:])
                if budget is None:
                    muts.append(toks[:i] + [rep] + toks[i:])
    if budget is not None and len(muts) > budget:
        muts = r.sample(muts, budget)
    return [" ".join(m) for m in muts]


def char_soup(r: random.Random, n: int) -> list[str]:
    alpha = list("abxe_01.9 \n\t\r()[]{}=<>~+-*/%^#&|,;:'\"\\") + ["--", "[[", "]]", "[=[", "..", "...", "::", "and ", "end ", "function ", "local ",
                                                                   "\r\n", "\\u{7FFFFFFF}", "\\u{80000000}", "\\u{FFFFFFFF}", "\\u{110000}", "\\xff", "\\255", "\\256",
                                                                   "return ", "if ", "then ", "do ", "0x", "1e", "\\u{", "\\x", "\\z", " ", "é", "\x00"]
    return ["".join(r.choice(alpha) for _ in range(r.randint(1, 40))) for _ in range(n)]


def malformed_inputs(ctx: fw.Ctx, name: str, n_seeds_q: int, n_seeds_t: int, per_seed_q: int | None) -> list[str]:
    r = ctx.rng(name)
    seeds = seed_token_lists(ctx, name + "-seeds", ctx.n(n_seeds_q, n_seeds_t))
    out = []
    for toks in seeds:
        out += token_mutations(toks, r, per_seed_q if ctx.quick else 4 * (per_seed_q or 100))
    return out


def prefixes_of(srcs: list[str]) -> list[str]:
    out = []
    for s in srcs:
        out += [s[:i] for i in range(len(s) + 1)]
    return out


def check_position(st: fw.Stream, src: str, status: str, e, case: dict) -> None:
    lines = src.split("\n")
    if status == "lexer":
        # LexerError carries 0-based line and column
        ok = isinstance(e.line, int) and isinstance(e.column, int) and 0 <= e.line < len(lines) and -1 <= e.column <= len(lines[e.line])
        if not ok:
            st.fail("LexerError position lies outside the text", dict(case, line=e.line, column=e.column))
    elif status == "parser":
        t = e.token
        ok = 1 <= t.line <= len(lines) and 0 <= t.column <= len(lines[t.line - 1]) + 1
        if not ok:
            st.fail("ParserError position lies outside the text", dict(case, line=t.line, column=t.column))


def eval_total(st: fw.Stream, srcs: list[str]) -> list[tuple[str, str, Any]]:
    """C09 oracle: AST, LexerError or ParserError - nothing else, terminating, position inside the text"""
    res = []
    items = []
    for src in srcs:
        status, x = tparse(src)
        case = {"kind": "text", "source": src}
        st.record(case, key=src, nontrivial=status in ("lexer", "parser"))
        st.notes[status] = st.notes.get(status, 0) + 1
        if status in ("other", "timeout", "recursion"):
            st.fail(f"parse raised {type(x).__name__}: {x}" if status == "other" else f"parse did not finish normally: {status}", case)
        else:
            check_position(st, src, status, x, case)
            if status == "parser":
                items.append((src, x, case))
        res.append((src, status, x))
    check_error_tokens(st, items)
    return res


def run_c09(ctx: fw.Ctx) -> None:
    r = ctx.rng("c09")
    seeds = random_programs(ctx, "c09seeds", ctx.n(40, 300), depth_choices=(1, 2, 3))
    st = ctx.stream("every prefix (cut point) of seed programs")
    eval_total(st, prefixes_of(seeds[: ctx.n(25, 300)] + STAT_FORMS))
    st.exhaustive = True
    st2 = ctx.stream("single-token deletion / duplication / swap / replacement by every token kind")
    eval_total(st2, malformed_inputs(ctx, "c09mut", 10, 150, 250))
    st3 = ctx.stream("random strings over the Lua alphabet")
    eval_total(st3, char_soup(r, ctx.n(3000, 60000)))
    st4 = ctx.stream("escape sequences and numerals cut at every point")
    lits = ['"\\x41"', '"\\u{1F600}"', '"\\065"', '"\\z  a"', "'\\\n'", "[==[x]==]", "--[==[x]==]", "0x1.8p-3", "1.5e+10", "a.b:c'x'", "a, b = 1",
            "local x <const> = 1", "t[1].y = f{...}", "::l:: goto l", "function a.b:c(...) end", "x = 'é中😀'"]
    eval_total(st4, [p + tail for l in lits for p in [l[:i] for i in range(len(l) + 1)] for tail in ("", " ", "\n", " y", "\n=1")])
    st4.exhaustive = True
    st5 = ctx.stream("quoted literals over the escape alphabet (all sequences up to 2 items), alone and inside a statement")
    lits2 = c05_literals(2)
    eval_total(st5, lits2 + ["x = " + l + " .. y" for l in lits2[:: ctx.n(7, 1)]])
    st5.exhaustive = True
    st6 = ctx.stream("texts with carriage returns (lone CR, CRLF) in place of line feeds, then damaged")
    crs = []
    for p in seeds[: ctx.n(40, 300)]:
        q = p.replace("\n", r.choice(["\r", "\r\n", "\n\r"]), r.randint(1, 3))
        crs.append(q)
        crs.append(mutate_text(r, q))
        crs.append(q[: r.randrange(len(q) + 1)])
    crs += ["a = 1\rb = = 2", "a = 1\r!", "x = 'a\rb'", "--[[\r]]\r\r!", "x = [[\r\n]] )", "\r", "\r\r(", "x\r=\r1\r)"]
    eval_total(st6, crs)
    st_o = ctx.stream("the same malformed literals and damaged programs through Parser(typed=.., ignore_unicode_errors=..): still only LexerError / ParserError")
    for src in lits2[:: ctx.n(3, 1)] + ['x = "\\u{80000000}"', 'x = "\\u{FFFFFFFFFF}"', 'x = "\\u{7FFFFFFF}" y', "x = '\\xff\\200' .. 1", "x as y is z", "local as = is"]:
        for typed in (False, True):
            for iu in (False, True):
                case = {"kind": "options", "source": src.encode("utf-8", "surrogatepass").hex(), "typed": typed, "ignore_unicode_errors": iu}
                st_o.record(case, key=json.dumps(case, sort_keys=True))
                got = option_error_pos(src, typed, iu)
                if got[0] == "other":
                    st_o.fail(f"Parser(typed={typed}, ignore_unicode_errors={iu}) raised {got[1]}", case)
    st_t = ctx.stream("parse after the legacy switch include_typing(False/True) was used: still an AST or LexerError / ParserError, for untyped and typed parsers")
    import tumfl.lexer as _lx
    if hasattr(_lx, "include_typing"):
        state0 = "as" in getattr(_lx, "RESERVED_KEYWORDS", {})
        try:
            for seq in ([False], [True], [False, False], [True, False], [False, True], [True, True, False]):
                for b in seq:
                    with quiet():
                        try:
                            _lx.include_typing(b)
                        except Exception as e:  # noqa: BLE001
                            st_t.fail(f"include_typing({b}) raised {type(e).__name__}: {e}", {"kind": "history", "calls": [["include_typing", x] for x in seq]})
                for src in ["", "x = 1", "local as, is = 1, 2 return as + is", "x as y", "x = ", "#"]:
                    for typed in (False, True):
                        case = {"kind": "history", "calls": [["include_typing", x] for x in seq] + [["parse_opts", src, typed, False]]}
                        st_t.record(case, key=json.dumps(case, sort_keys=True))
                        got = option_error_pos(src, typed, False)
                        if got[0] == "other":
                            st_t.fail(f"after include_typing{tuple(seq)}: Parser(typed={typed}) raised {got[1]}", case)
        finally:
            _restore_typing(state0)
    st_t.exhaustive = True
    st7 = ctx.stream("nesting up to the quantifier's bound (20) in every recursive construct, and long flat chains, closed and truncated")
    deep = []
    for n in (10, 20):
        deep += ["x=" + "{" * n, "x=" + "{" * n + "}" * n, "x=" + "(" * n + "1" + ")" * n, "x=" + "(" * n, "x=" + "a{" * n, "do " * n + "end " * n, "x=" + "function() return " * n,
                 "x=" + "f(" * n, "x=" + "a[" * n, "if a then " * n, "x=" + "{{" * (n // 2) + "}," * (n // 2), "while a do " * n, "x=" + "-(" * n]
    for n in range(5, 21, 3):
        deep += ["x=" + "f(" * n + "1" + ")" * n, "f(" * n + ")" * n, "x=" + "{" * n + "}" * n, "x=" + "{f(" * (n // 2) + "1" + ")}" * (n // 2),
                 "while a do " * n + "end " * n, "x=" + "function() return " * n + "1" + " end" * n, "if a then " * n + "end " * n,
                 "x=" + "a[" * n + "1" + "]" * n, "x=" + "(" * n + "a" + ")" * n + "()", "x=" + "t:m(" * n + ")" * n, "repeat " * n + "until a " * n]
    for n in (100, 400):
        deep += ["x=" + "-" * n + "1", "x=" + "not " * n, "x=" + "1+" * n + "1", "x=" + "1^" * (n // 4) + "1", "x=" + "1 .. " * (n // 4) + "1", "x=" + "a." * n + "b", ";" * n,
                 "x=a" + "()" * n, "x=a" + "[1]" * n, "x={" + "1," * n + "}", "f(" + "1," * n + "1)", "local " + "a," * n + "a", "x=1 " * n]
    eval_total(st7, deep)
    st7.exhaustive = True
    t2_parse(ctx, prefixes_of(seeds[: ctx.n(8, 60)]) + malformed_inputs(ctx, "c09t2", 4, 40, 200) + char_soup(r, ctx.n(800, 10000)) + crs + deep)


# small token alphabets around each grammar rule with an ordering, once-only or separator constraint: every token string up to a length
# over the alphabet, between a fixed prefix and suffix - the over-approximation a parser loop written too generously would accept
SUBLANGUAGES = [
    ("function name", "function a ", [".b", ":c", ".", ":", "d", "()"], " () end", 4, 6),
    ("local attribs", "local a ", ["<const>", "<close>", "<", ">", "const", ", b", ",", "= 1", "<x>"], "", 4, 5),
    ("for header", "for a ", [", b", "= 1", ", 1", "in c", ",", "=", "in", "1"], " do end", 4, 6),
    ("table fields", "x = { ", ["a", "= 1", "1", ",", ";", "[1]", "[", "]", "="], " }", 4, 5),
    ("suffix chain", "a ", [".b", ":c", "()", "'s'", "{}", "[1]", "= 1", ", d", ".", ":", "("], "", 3, 5),
    ("if chain", "if a then ", ["else", "elseif b then", "elseif", "then", "end", "x = 1", "if c then"], " end", 4, 6),
    ("simple statements", "", ["goto a", "::a::", "goto", "::", "a", "return", "break", ";", "return 1", ", 2"], "", 4, 5),
    ("loops", "", ["while a do", "repeat", "until a", "do", "end", "x = 1", "while", "a"], "", 4, 6),
    ("parameters", "x = function( ", ["a", ",", "...", ")", "end", "= 1"], "", 5, 7),
    ("operators", "x = ", ["a", "-", "not", "^", "..", "(", ")", "1", "<"], "", 4, 5),
    ("assignment targets", "", ["a", "(a)", ".b", "[1]", "()", ",", "= 1", "(", ")"], "", 4, 5),
]


def sublanguage_programs(full: bool):
    for name, pre, alpha, suf, q, t in SUBLANGUAGES:
        n = t if full else q
        for k in range(0, n + 1):
            for c in itertools.product(alpha, repeat=k):
                yield name, pre + " ".join(c) + suf


def run_c10(ctx: fw.Ctx) -> None:
    st = ctx.stream("single-token mutations classified by the reference grammar")
    srcs = malformed_inputs(ctx, "c10mut", 15, 200, 300)
    srcs += ["x = 1 end y = 2", "return 1 launch()", "x = 1 until y", "x = 1 else y = 2", "x = 1 elseif y then", "return return", "return 1 2",
             "x = {1 2}", "x = {a = 1 b = 2}", "x = {1,,2}", "x = {,}", "f() = 1", "(a) = 1", "(f())", "a.b", "a:b", "a, 1 = 2", "x = 0x", "x = 1e",
             "x = 3f()", "x = 1..2", "x = 0x1p", "x = 1e+", "x = 1", "x = 1", "x = 1\x1c", "x =\x85 1", "x = 08", "x = 0xg", "x = 1 = 2",
             "local function f() end end", "do end end", "if x then end end", "for i = 1 do end", "for i = 1, 2, 3, 4 do end", "local x <const const> = 1",
             "goto", "::a", "break break", "x = a b", "x = (1)(2)(3)", "f{}{}''", "x = function() end()", "return;;", "x = - - 1", "x = not", "x = # #t",
             "x = a.1", "x = a..b", "x = a...b", "x = a....b", "x = ...b", "x = 1 .. 2", "x = 1. .. 2"]
    if not ctx.quick:
        st_d = ctx.stream("double mutations")
        r = ctx.rng("c10d")
        dbl = []
        for s in r.sample(srcs, 3000):
            toks = s.split()
            dbl += token_mutations(toks, r, 8)
        eval_accept(st_d, dbl)
    eval_accept(st, srcs)
    st_s = ctx.stream("every token string up to a length over 11 small alphabets around the grammar's ordering and once-only constraints")
    subs = sorted({src for _, src in sublanguage_programs(not ctx.quick)})
    eval_accept(st_s, subs)
    st_s.exhaustive = True
    st_c = ctx.stream("texts that only the lexer can make invalid: long comments and long strings that never close or close at another level, a `#` line that is not at the very beginning")
    ctexts = []
    for op_, cl in (("[[", "]]"), ("[=[", "]=]"), ("[==[", "]==]")):
        for wrong in ("", "]]", "]=]", "]==]", "]"):
            if wrong == cl:
                continue
            ctexts += [f"x = 1 --{op_} disabled:{wrong}\nlaunch()\n", f"--{op_} a {wrong}\nx = 1", f"x = {op_} s {wrong}\ny = 2", f"f() --{op_}{wrong}", f"--{op_} ok {cl} x = 1 --{op_} open {wrong}"]
    ctexts += ["  #t = 1\nx = 2", "\t#!/usr/bin/lua\nx = 2", "\n#!/usr/bin/lua\nx = 2", " #", "x = 1\n#!shebang\ny = 2", "#!/usr/bin/lua\n#second\nx = 1", "#", "#\n", "#x\n#y", "--c\n#x\ny = 1"]
    eval_accept(st_c, ctexts)
    st_c.exhaustive = True
    st_a = ctx.stream("every character string up to a length over a numeral/name/dot alphabet, written WITHOUT blanks (what touches a numeral decides whether it is one)")
    adj = sorted({pre + "".join(c) + suf for k in range(0, (5 if ctx.quick else 6)) for c in itertools.product(["1", "_", "a", ".", "e", "x", "0", "+", "(", ")", "p", "\u0663"], repeat=k)
                  for pre, suf in (("x = ", ""), ("x = 1", "()"))})
    eval_accept(st_a, adj)
    st_a.exhaustive = True
    r2 = ctx.rng("c10sub")
    t2_parse(ctx, srcs[:: ctx.n(4, 1)] + r2.sample(subs, ctx.n(3000, 60000)))
    st_f = ctx.stream("the same texts through the file entry point (resolve_recursive on the file, and as a required file): accepted iff parse accepts")
    texts = r2.sample([t for t in subs if "require" not in t], ctx.n(250, 4000)) + [t for t in srcs[:: ctx.n(40, 5)] if "require" not in t and "\x00" not in t]
    texts += ["local M = {} M.ready = true end M.launch()", "return 1 launch()", "x = 1 end", "x = 1 until y", "return 1; x = 2", "x = 1 else"]
    root = Path(tempfile.mkdtemp(prefix="tumfl-c10-"))
    try:
        for i, t in enumerate(texts):
            case = {"kind": "text", "source": t, "entry": "file"}
            st_f.record(case, key=t)
            direct = tparse(t)[0]
            try:
                (root / "m.lua").write_text(t, encoding="utf-8")
            except UnicodeEncodeError:
                continue
            (root / "main.lua").write_text("before()\nrequire('m')\nafter()\n", encoding="utf-8")
            outcomes = []
            for entry in ("m.lua", "main.lua"):
                with quiet():
                    try:
                        with_watchdog(10, tumfl.resolve_recursive, root / entry, [])
                        outcomes.append("ok")
                    except (LexerError,):
                        outcomes.append("lexer")
                    except ParserError:
                        outcomes.append("parser")
                    except Exception as e:  # noqa: BLE001
                        outcomes.append("other:" + type(e).__name__)
            for entry, o in zip(("as the main file", "as a required file"), outcomes):
                if (o == "ok") != (direct == "ok"):
                    st_f.fail(f"parse() says {direct} but resolve_recursive {entry} says {o}: the file entry point accepts other texts than parse", case)
                    break
    finally:
        shutil.rmtree(root, ignore_errors=True)


def eval_accept(st: fw.Stream, srcs: list[str]) -> None:
    refs = refparse(srcs)
    for src, ref in zip(srcs, refs):
        status, ast = tparse(src)
        valid = ref.startswith("ok")
        case = {"kind": "text", "source": src, "reference": ref[:200]}
        st.record(case, key=src, nontrivial=not valid)
        st.notes["valid" if valid else "invalid"] = st.notes.get("valid" if valid else "invalid", 0) + 1
        if status == "ok" and not valid:
            st.fail("parse succeeded on text that is not a valid Lua chunk", case)
        elif status == "ok" and valid:
            try:
                mine = "ok " + absast.abs_chunk(ast)
            except absast.AbsError as e:
                st.fail(f"AST has an unexpected shape: {e}", case)
                continue
            feats = None
            if mine != ref:
                feats = drive([("features", hx(src))])[0]
                if "k1=true" in feats or "k2=true" in feats:
                    continue   # known findings of C03, not of C10
                st.fail("parse succeeded with a different tree than the grammar assigns", dict(case, got=mine[:1500]))


def run_c19(ctx: fw.Ctx) -> None:
    from tumfl.parser import Parser
    st = ctx.stream("accepted programs: context chain empty after parse_chunk")
    progs = random_programs(ctx, "c19ok", ctx.n(300, 5000)) + list(statement_pair_programs())[:: ctx.n(4, 1)] + \
        [s for _, s in corpus_files() if len(s) < ctx.n(40000, 10**9)]
    # nesting up to the quantifier's bound in every recursive construct (many hints open at once)
    for n in range(3, 21):
        progs += ["x=" + "f(" * n + "1" + ")" * n, "x=" + "{" * n + "}" * n, "while a do " * n + "end " * n, "x=" + "function() return " * n + "1" + " end" * n,
                  "if a then " * n + "end " * n, "x=" + "a[" * n + "1" + "]" * n, "x=" + "t:m(" * n + ")" * n, "x=" + "{f(" * (n // 2) + "1" + ")}" * (n // 2)]
    for src in progs:
        case = {"kind": "program", "source": src}
        with quiet():
            try:
                p = Parser(src)
                p.parse_chunk()
            except TumflError:
                st.record(case, key=src, nontrivial=False)
                continue
            except Exception as e:  # noqa: BLE001
                st.record(case, key=src)
                st.fail(f"parse raised {type(e).__name__}", case)
                continue
        st.record(case, key=src)
        if p.context_hints:
            st.fail("context chain not empty after a successful parse", dict(case, hints=[str(h) for h in p.context_hints]))
    st2 = ctx.stream("rejected programs: hints in source order, none after the offending token")
    srcs = malformed_inputs(ctx, "c19mut", 12, 200, 300) + prefixes_of(random_programs(ctx, "c19pre", ctx.n(15, 200), depth_choices=(1, 2, 3)))
    sites = set()
    for src in srcs:
        status, e = tparse(src)
        case = {"kind": "text", "source": src}
        st2.record(case, key=src, nontrivial=(status == "parser" and bool(e.hints)))
        if status != "parser":
            continue
        pos = [(h.token.line, h.token.column) for h in e.hints]
        for h in e.hints:
            sites.add((h.where, h.what))
        if pos != sorted(pos):
            st2.fail("hint positions are not in source order", dict(case, hints=[str(h) for h in e.hints]))
        elif pos and pos[-1] > (e.token.line, e.token.column):
            st2.fail("a hint lies after the offending token", dict(case, hints=[str(h) for h in e.hints], token=(e.token.line, e.token.column)))
    st2.notes["distinct_hint_kinds_seen"] = len(sites)
    t2_parse(ctx, progs[: ctx.n(150, 3000)] + srcs[:: ctx.n(5, 1)])


for pid, runner, rule in [
    ("C09", run_c09, "every prefix of seed programs, single-token mutations (delete, duplicate, swap, replace by each of 60 token kinds), random "
                     "character soup, literals cut at every point; oracle: result is an AST, LexerError or ParserError, terminates (10 s watchdog), "
                     "position inside the text and ParserError token is a real token; non-trivial = the text was rejected"),
    ("C10", run_c10, "single (thorough: double) token mutations of generated programs plus a list of hand-written invalid texts; oracle: "
                     "whenever tumfl.parse succeeds the Lean Spec must accept the text with the same normalised tree; non-trivial = invalid by the reference"),
    ("C19", run_c19, "accepted programs (context_hints must be empty after parse_chunk) and rejected ones (hint positions sorted, none after the "
                     "offending token); non-trivial = rejected with a non-empty hint chain / accepted"),
]:
    register(pid, run=runner, modules=["Tumfl.Props.C11"], obligations=["Tumfl.Props.C11_roundtrip"], rule=rule + "; distinct = distinct texts",
             partial_hypotheses=["no theorem about the model parser yet"])


# =========================================================================== C17 tree shape, C18 equality
from tumfl.AST.ASTNode import ASTNode
from tumfl.AST.Statement.LocalAssign import AttributedName
from tumfl.basic_walker import NoneWalker

NON_STRUCTURAL = {"token", "parent_class", "file_name", "comment", "name", "attributes"}


def children_of(node: ASTNode) -> list[tuple[str, ASTNode]]:
    """(slot description, child) for every child node, found by reflection - independent of ASTNode.__dir"""
    out = []
    for k, v in vars(node).items():
        if k in ("token", "parent_class", "file_name", "comment", "attributes"):
            continue
        if isinstance(v, ASTNode):
            out.append((k, v))
        elif isinstance(v, list):
            for i, x in enumerate(v):
                if isinstance(x, ASTNode):
                    out.append((f"{k}[{i}]", x))
                elif isinstance(x, AttributedName):
                    out.append((f"{k}[{i}].name", x.name))
                    if x.attribute is not None:
                        out.append((f"{k}[{i}].attribute", x.attribute))
    return out


def all_nodes(root: ASTNode) -> list[tuple[ASTNode | None, str, ASTNode]]:
    out = []
    stack = [(None, "root", root)]
    while stack:
        p, slot, n = stack.pop()
        out.append((p, slot, n))
        for s, c in reversed(children_of(n)):
            stack.append((n, s, c))
    return out


class CountingWalker(NoneWalker):
    def __init__(self):
        self.seen: dict[int, int] = {}

    def visit(self, node):
        self.seen[id(node)] = self.seen.get(id(node), 0) + 1
        return super().visit(node)


def check_tree(st: fw.Stream, root: ASTNode, case: dict, expect_root_parent=None) -> bool:
    nodes = all_nodes(root)
    ids = [id(n) for _, _, n in nodes]
    if len(set(ids)) != len(ids):
        st.fail("a node is reachable from more than one parent slot", case)
        return False
    for p, slot, n in nodes:
        if p is None:
            if n.parent_class is not expect_root_parent:
                st.fail("root has a parent link", case)
                return False
        elif n.parent_class is not p:
            st.fail("parent link does not designate the parent", dict(case, slot=f"{type(p).__name__}.{slot}", child=type(n).__name__,
                                                                        link=type(n.parent_class).__name__))
            return False
    w = CountingWalker()
    with quiet():
        w.visit(root)
    for p, slot, n in nodes:
        c = w.seen.get(id(n), 0)
        if c != 1:
            st.fail(f"generic walker visits a node {c} times", dict(case, slot=f"{type(p).__name__ if p else None}.{slot}", node=type(n).__name__))
            return False
    return True


def check_replace(st: fw.Stream, root: ASTNode, r: random.Random, case: dict) -> None:
    nodes = all_nodes(root)
    parents = [n for _, _, n in nodes if children_of(n)]
    picks = [r.choice(parents) for _ in range(min(4, len(parents)))]
    # names inside a local declaration (wrapped in AttributedName) are children too: always try one of each kind when present
    picks += [n for n in parents if isinstance(n, A.LocalAssign)][:2]
    for p in picks:
        kids = children_of(p)
        wrapped = [k for k in kids if ".name" in k[0] or ".attribute" in k[0]]
        slot, victim = r.choice(wrapped) if (wrapped and isinstance(p, A.LocalAssign) and r.random() < 0.7) else r.choice(kids)
        new = A.Name(T(), "replacement")
        before = [(s, id(c)) for s, c in kids]
        p.replace_child(victim, new)
        after = [(s, id(c)) for s, c in children_of(p)]
        want = [(s, id(new) if i == id(victim) else i) for s, i in before]
        if after != want:
            st.fail("replace_child did not substitute exactly the given occurrence", dict(case, parent=type(p).__name__, slot=slot))
            return
        p.replace_child(new, victim)   # put it back


def run_c17(ctx: fw.Ctx) -> None:
    r = ctx.rng("c17")
    st = ctx.stream("parsed programs: unique parent, parent links, walker visits each node once, replace_child")
    progs = random_programs(ctx, "c17", ctx.n(400, 6000)) + list(statement_pair_programs())[:: ctx.n(3, 1)]
    kinds = set()
    for src in progs:
        status, ast = tparse(src)
        case = {"kind": "program", "source": src}
        st.record(case, key=src)
        if status != "ok":
            st.fail(f"valid chunk not parsed: {status}", case)
            continue
        for p, slot, n in all_nodes(ast):
            kinds.add((type(p).__name__ if p else None, slot.split("[")[0], type(n).__name__))
        if check_tree(st, ast, case):
            check_replace(st, ast, r, case)
    st.notes["distinct_parent_slot_child_kinds"] = len(kinds)
    st2 = ctx.stream("after dependency resolution (statement- and expression-level inlining)")
    for i in range(ctx.n(60, 800)):
        tree = make_file_tree(r, faults=False)
        res = resolve_tree(tree)
        case = {"kind": "filetree", "files": tree["files"], "main": tree["main"], "search": tree["search"]}
        st2.record(case, key=json.dumps(case, sort_keys=True))
        if res[0] != "ok":
            st2.fail(f"resolution failed: {res[0]} {res[1]}", case)
            continue
        check_tree(st2, res[1], case)
    st3 = ctx.stream("after resolution of trees whose statement-level inlined files end in a top-level return (K4 concerns how that PRINTS; the tree must be a proper tree all the same)")
    rets = ["return M", "return setup(M)", "return M:init(1), f(g(2))", "return {k = f()}", "return function() return h() end", "return"]
    hows = ["require('m')", "do require 'm' end", "if c then require('m') else require('m') end", "function w() require('m') end", "require('m')\nlocal again = require('m')"]
    for ret in rets:
        for how in hows:
            for pre in ("", "local M = {}\nM.x = f(1)\n"):
                tree = {"files": {"main.lua": f"start()\n{how}\ntail()\n", "m.lua": pre + ret + "\n"}, "dirs": [], "main": "main.lua", "search": []}
                case = {"kind": "filetree", "files": tree["files"], "main": tree["main"], "search": tree["search"]}
                st3.record(case, key=json.dumps(case, sort_keys=True))
                res = resolve_tree(tree)
                if res[0] != "ok":
                    st3.fail(f"resolution failed: {res[0]} {res[1]}", case)
                    continue
                check_tree(st3, res[1], case)
    st3.exhaustive = True
    t2_resolve(ctx, [make_file_tree(r, faults=False) for _ in range(ctx.n(30, 500))])


def struct_dump(n) -> Any:
    """structure of a tumfl AST without tokens, comments, parents - the reference for =="""
    if isinstance(n, ASTNode):
        d = {"__class__": type(n).__name__}
        for k, v in vars(n).items():
            if k in ("token", "parent_class", "file_name", "comment", "attributes"):
                continue
            d[k] = struct_dump(v)
        return d
    if isinstance(n, AttributedName):
        return {"__class__": "AttributedName", "name": struct_dump(n.name), "attribute": struct_dump(n.attribute)}
    if isinstance(n, list):
        return [struct_dump(x) for x in n]
    if isinstance(n, (str, bool, int, type(None))):
        return n
    if hasattr(n, "name") and hasattr(n, "value"):   # enum
        return f"{type(n).__name__}.{n.name}"
    return repr(n)


def relayout(r: random.Random, toks: list[gen.Tok]) -> str:
    return gen.render(toks, r, gen.Cfg(comments=0.3))


def structural_mutations(r: random.Random, toks: list[gen.Tok]) -> list[list[gen.Tok]]:
    """token replacements that keep the kind of token (name->name, op->op, literal->literal)"""
    out = []
    idx = list(range(len(toks)))
    r.shuffle(idx)
    for i in idx[:12]:
        t = toks[i]
        new = None
        if t.kind == "name":
            new = gen.Tok(t.text + "_", "name")
        elif t.kind == "num":
            new = gen.Tok("7" + t.text if not t.text.startswith(".") else "7" + t.text, "num")
        elif t.kind == "str":
            new = gen.Tok("'mutated" + str(i) + "'", "str")
        elif t.text in gen.BINOPS and t.text not in ("-", "~", "<", ">"):
            new = gen.Tok(r.choice([o for o in ["+", "*", "/", "%", "..", "==", "and", "or", "^", "//", "&", "|", "<<", ">>", "<=", ">=", "~="] if o != t.text]), "sym")
        elif t.text in ("true", "false", "nil"):
            new = gen.Tok({"true": "false", "false": "nil", "nil": "true"}[t.text], "kw")
        if new is not None:
            out.append(toks[:i] + [new] + toks[i + 1:])
    return out


def run_c18(ctx: fw.Ctx) -> None:
    r = ctx.rng("c18")
    st_eq = ctx.stream("(program, re-laid-out copy): must be equal")
    st_ne = ctx.stream("(program, single-point mutation): equal iff structurally identical")
    st_obs = ctx.stream("(program, re-laid-out copy) compared again after repr()/str() of one side and of both")
    for _ in range(ctx.n(300, 5000)):
        g = gen.ProgGen(r, gen.Cfg(max_depth=r.choice([1, 2, 3]), max_stats=3))
        toks = g.chunk()
        a_src, b_src = gen.render(toks, r, plain=True), relayout(r, toks)
        sa, a = tparse(a_src)
        sb, b = tparse(b_src)
        case = {"kind": "pair", "a": a_src, "b": b_src}
        st_eq.record(case, key=a_src + "\0" + b_src)
        if sa != "ok" or sb != "ok":
            st_eq.fail(f"valid chunk not parsed: {sa} {sb}", case)
            continue
        da, db = struct_dump(a), struct_dump(b)
        if da != db:
            # the two texts are the same token sequence by construction (only blanks, line breaks and comments differ)
            st_eq.fail("the same token sequence in another layout gives a tree with different attribute values (layout or comment data stored in an attribute that == compares)", case)
            continue
        if not (a == b) or not (b == a):
            st_eq.fail("ASTs of the same program in a different layout compare unequal", case)
        # observers must not change what == says: print one side, compare, print the other, compare
        st_obs.record(case, key=a_src + "\0" + b_src)
        try:
            with quiet():
                repr(a)
            e1 = (a == b, b == a)
            with quiet():
                repr(b), str(b), str(a)
            e2 = (a == b, b == a)
            if e1 != (True, True) or e2 != (True, True):
                st_obs.fail("== changes after one of the trees was printed with repr()/str()", dict(case, after_repr_of_a=e1, after_repr_of_both=e2))
        except Exception as e:  # noqa: BLE001
            st_obs.fail(f"repr()/== raised {type(e).__name__}: {e}"[:300], case)
        for mt in structural_mutations(r, toks):
            m_src = gen.render(mt, r, plain=True)
            sm, m = tparse(m_src)
            if sm != "ok":
                continue
            same = struct_dump(m) == da
            mcase = {"kind": "pair", "a": a_src, "b": m_src, "structurally_equal": same}
            st_ne.record(mcase, key=a_src + "\0" + m_src, nontrivial=not same)
            try:
                wrong = (a == m) != same or (m == a) != same
            except Exception as e:  # noqa: BLE001
                st_ne.fail(f"== raised {type(e).__name__}: {e}"[:300], mcase)
                continue
            if wrong:
                st_ne.fail("== disagrees with structural identity", mcase)
    # optional parts, arity, operators, literal digits
    pairs = [("local x", "local x = nil"), ("local x <const> = 1", "local x = 1"), ("local x <const> = 1", "local x <close> = 1"),
             ("f()", "f(nil)"), ("f(1)", "f(1, 1)"), ("return", "return nil"), ("return", ""), ("x = 1", "x = 1.0"), ("x = 1", "x = 01"),
             ("x = 0x10", "x = 16"), ("x = 'a'", "x = \"a\""), ("x = 'a'", "x = [[a]]"), ("x = a.b", "x = a['b']"), ("a.b()", "a:b()"),
             ("for i = 1, 2 do end", "for i = 1, 2, 1 do end"), ("if a then end", "if a then else end"), ("function f() end", "function f(...) end"),
             ("function a.b() end", "function a:b() end"), ("x = -1", "x = - 1"), ("x = a - b", "x = a + b"), ("x = not a", "x = #a"),
             ("x = {1}", "x = {[1] = 1}"), ("x = {a = 1}", "x = {['a'] = 1}"), ("do end", ";"), ("x = 1", "x = 1;"), ("x = (a)", "x = a"),
             ("while a do end", "repeat until a"), ("goto a", "::a::"), ("x = true", "x = false"), ("x = 1e2", "x = 1E2"), ("x = 0xA", "x = 0xa")]
    st_p = ctx.stream("hand-written pairs: optional parts, arity, operators, literal spellings")
    for a_src, b_src in pairs:
        (sa, a), (sb, b) = tparse(a_src), tparse(b_src)
        same = struct_dump(a) == struct_dump(b)
        case = {"kind": "pair", "a": a_src, "b": b_src, "structurally_equal": same}
        st_p.record(case, key=a_src + "\0" + b_src)
        if (a == b) != same:
            st_p.fail("== disagrees with structural identity", case)
    st_p.exhaustive = True
    st_n = ctx.stream("all ordered pairs of numeral spellings (digits, missing parts, exponent forms)")
    nums = [".5", "0.5", "0.50", "5.", "5", "5.0", "05", "0x.8", "0x0.8", "0x1.8", "0x8", "0X8", "0x08", "8", "1e5", "1E5", "1e+5", "1e05", "1e-5",
            "0x1p4", "0x1P4", "0x1p+4", "0x10", "16", "0xA", "0xa", "0xa.0", "1.", "1.e1", "1e1", "10", "0", "0.0", ".0", "0x0", "00"]
    parsed = {}
    for n in nums:
        stt, a = tparse(f"x = {n}")
        if stt == "ok":
            parsed[n] = a
    def numeral_key(sp: str):
        """the digits AS WRITTEN (independent of what the node stores): radix, integer digits, fraction digits (an empty fraction leaves no trace: K2), exponent with its sign"""
        t = sp.lower()
        hexa = t.startswith("0x")
        body = t[2:] if hexa else t
        mark = "p" if hexa else "e"
        mant, _, expo = body.partition(mark)
        ip, dot, fp = mant.partition(".")
        return (hexa, ip, fp if dot and fp else None, expo if mark in body else None)

    for n1, a in parsed.items():
        for n2, b in parsed.items():
            same = struct_dump(a) == struct_dump(b)
            if same != (numeral_key(n1) == numeral_key(n2)):
                st_n.fail("the digits a Number node stores are not the digits that were written", {"kind": "pair", "a": f"x = {n1}", "b": f"x = {n2}", "stored_equal": same})
                continue
            case = {"kind": "pair", "a": f"x = {n1}", "b": f"x = {n2}", "structurally_equal": same}
            st_n.record(case, key=n1 + "|" + n2, nontrivial=(n1 != n2))
            if (a == b) != same:
                st_n.fail("== disagrees with structural identity (numeral digits)", case)
    st_n.exhaustive = True
    st_t = ctx.stream("Token.__eq__ / __hash__ and AttributedName.__eq__ directly: equal iff (type, value) resp. (name, attribute) are equal; position and comments never matter")
    for _ in range(ctx.n(60, 1000)):
        g = gen.ProgGen(r, gen.Cfg(max_depth=r.choice([1, 2]), max_stats=3))
        toks = g.chunk()
        a_src, b_src = gen.render(toks, r, plain=True), relayout(r, toks)
        (sa, ta), (sb, tb) = tlex(a_src), tlex(b_src)
        case = {"kind": "pair", "a": a_src, "b": b_src}
        st_t.record(case, key=a_src + "\0" + b_src)
        if sa != "ok" or sb != "ok" or len(ta) != len(tb):
            continue
        for x, y in zip(ta, tb):
            if not (x == y) or hash(x) != hash(y):
                st_t.fail("tokens of the same program in another layout compare unequal (or hash differently)", dict(case, token=str(x)))
                break
        for i in range(len(ta) - 1):
            x, y = ta[i], ta[i + 1]
            same = (x.type, x.value) == (y.type, y.value)
            if (x == y) != same or (x == (x.type, x.value)) or (x == None):  # noqa: E711
                st_t.fail("Token.__eq__ disagrees with (type, value) identity", dict(case, x=str(x), y=str(y)))
                break
    N = lambda n: A.Name(T(), n)  # noqa: E731
    AN = AttributedName
    att_pairs = [(AN(N("a")), AN(N("a")), True), (AN(N("a")), AN(N("b")), False), (AN(N("a"), N("const")), AN(N("a")), False),
                 (AN(N("a"), N("const")), AN(N("a"), N("close")), False), (AN(N("a"), N("const")), AN(N("a"), N("const")), True)]
    for x, y, want in att_pairs:
        case = {"kind": "pair", "a": str(x), "b": str(y)}
        st_t.record(case, key="att" + str(x) + "|" + str(y))
        if (x == y) != want or (y == x) != want or x == N("a") or x == "a" or repr(x) == "":
            st_t.fail("AttributedName.__eq__ disagrees with (name, attribute) identity", case)
    st_l = ctx.stream("same program linked differently (parent links to another root, another file name, after resolution from another directory): must be equal")
    for i in range(ctx.n(60, 1000)):
        g = gen.ProgGen(r, gen.Cfg(max_depth=r.choice([1, 2]), max_stats=3))
        src = gen.render(g.chunk(), r, plain=True)
        for how in LINK_VARIANTS:
            case = {"kind": "linkpair", "source": src, "how": how}
            st_l.record(case, key=src + "\0" + how)
            msg = eval_linkpair(src, how)
            if msg:
                st_l.fail(msg, case)


LINK_VARIANTS = ["file-name", "foreign-parent", "resolved-from-two-directories", "comments-and-attributes"]


def eval_linkpair(src: str, how: str) -> str | None:
    (sa, a), (sb, b) = tparse(src), tparse(src)
    if sa != "ok" or sb != "ok":
        return None
    if how == "file-name":
        b.parent(None, Path("/somewhere/else.lua"))
    elif how == "foreign-parent":
        holder = A.Block(T(), [b], None)
        holder.parent(None, Path("holder.lua"))
    elif how == "resolved-from-two-directories":
        root = Path(tempfile.mkdtemp(prefix="tumfl-c18-"))
        try:
            (root / "d1").mkdir()
            (root / "d2").mkdir()
            (root / "d1" / "m.lua").write_text(src, encoding="utf-8")
            (root / "d2" / "m.lua").write_text(src, encoding="utf-8")
            with quiet():
                try:
                    a = tumfl.resolve_recursive(root / "d1" / "m.lua", [])
                    b = tumfl.resolve_recursive(root / "d2" / "m.lua", [])
                except TumflError:
                    return None
        finally:
            shutil.rmtree(root, ignore_errors=True)
    elif how == "comments-and-attributes":
        for st_ in getattr(b, "statements", []):
            st_.token.comment.append("added later")
            st_.token.line += 7
    if struct_dump(a) != struct_dump(b):
        return None
    if not (a == b) or not (b == a):
        return f"the same program compares unequal when only its links differ ({how})"
    return None


for pid, runner, rule in [
    ("C17", run_c17, "parsed programs and resolved file trees; children found by reflection (vars), independent of ASTNode.__dir; oracle: each node has one "
                     "parent slot, parent_class designates it, NoneWalker visits each node exactly once, replace_child substitutes exactly one slot"),
    ("C18", run_c18, "pairs (program, re-laid-out copy with other blanks/comments) and (program, token-level mutation keeping validity); oracle: a "
                     "structural dump of both ASTs by reflection (no tokens, comments, parents); == must hold iff the dumps are equal; non-trivial = dumps differ"),
]:
    register(pid, run=runner, modules=["Tumfl.Props.C11"], obligations=["Tumfl.Props.C11_roundtrip"], rule=rule + "; distinct = distinct inputs",
             partial_hypotheses=["no schema theorem yet"])


# =========================================================================== file trees (C04 C12 C17)
import shutil
import tempfile
from pathlib import Path, PurePosixPath

from tumfl.error import InvalidDependencyError


def sexp_parse(s: str):
    """minimal S-expression reader for the canonical tree text"""
    toks = s.replace("(", " ( ").replace(")", " ) ").split()
    pos = 0

    def rd():
        nonlocal pos
        t = toks[pos]
        pos += 1
        if t == "(":
            lst = []
            while toks[pos] != ")":
                lst.append(rd())
            pos += 1
            return lst
        return t

    return rd()


def sexp_show(x) -> str:
    if isinstance(x, list):
        return "(" + " ".join(sexp_show(y) for y in x) + ")"
    return x


# every slot of every node class in which a call can stand: {R}/{R2} a call statement, {E} a call used as an expression
SITES_STMT = ["{R}", "do {R} end", "while c do {R} end", "repeat {R} until c", "if c then {R} end", "if c then else {R} end", "if c then {R} else {R2} end",
              "if c then elseif d then {R} end", "if c then elseif d then else {R} end", "if c then elseif d then elseif e then else {R} end",
              "if c then elseif d then elseif e then {R} end", "for i = 1, 2 do {R} end", "for k in p do {R} end", "function h{k}() {R} end",
              "function t.a.b:m{k}() {R} end", "local function lf{k}() {R} end", "x{k} = function() {R} end", "g{k}(function() {R} end)",
              "do do do {R} end end end", "while c do if d then else repeat {R} until e end end"]
SITES_EXPR = ["local v{k} = {E}", "local a{k} <const>, b{k} = 1, {E}", "x{k} = {E}", "x{k}, y{k} = 1, {E}", "x{k}[{E}] = 1", "{E}.f = 1", "{E}[1] = 2",
              "f{k}({E}, 1)", "f{k}(1, {E})", "o:m{k}({E})", "{E}()", "{E}:method(1)", "{E}.g()", "w{k} = {E}.field", "w{k} = {E}[1]", "z{k} = t[{E}]",
              "t{k} = {{ {E}, k = {E}, [{E}] = 2 }}", "t{k} = {{ [1] = {E} }}", "f{k}{{ {E} }}", "if {E} then y{k} = 1 end", "if c then elseif {E} then end",
              "if c then elseif d then elseif {E} then else end", "while {E} do break end", "repeat until {E}", "for i = {E}, 2 do end", "for i = 1, {E} do end",
              "for i = 1, 2, {E} do end", "for k, v in {E} do end", "for k in p, {E} do end", "z{k} = {E} .. 'x'", "z{k} = 1 .. {E}", "z{k} = -{E}",
              "z{k} = not {E}", "z{k} = ({E}).x", "z{k} = {E} and 1 or 2", "function g{k}() return {E} end", "function g{k}() return 1, {E} end",
              "do local q = {E} end", "x{k} = {{ k = function() return {E} end }}", "while c do local q = {E} end",
              # lists of unequal length (a walker that pairs targets with values stops at the shorter one)
              "x{k} = 1, {E}", "x{k} = 1, 2, {E}", "x{k}, y{k}[{E}] = f()", "x{k}, {E}.f = f()", "x{k}, y{k}, z{k} = {E}", "local a{k} = 1, {E}",
              "local a{k}, b{k}, c{k} = {E}", "for a, b, c in {E} do end", "for k in p, q, {E} do end", "f{k}(1, 2, 3, {E})"]
REQ_POSITIONS = SITES_STMT + SITES_EXPR


def make_file_tree(r: random.Random, faults: bool, cycle: int = 0, k4: bool = False) -> dict:
    """a resolvable tree (rejection sampling over make_file_tree_raw against the reference lookup)"""
    for _ in range(200):
        tree = make_file_tree_raw(r, faults, cycle, k4)
        try:
            expected_inline(tree, tree_refs(tree))
            return tree
        except ExpectDependencyError:
            continue
    raise fw.InfraError("could not generate a resolvable file tree")


def make_file_tree_raw(r: random.Random, faults: bool, cycle: int = 0, k4: bool = False) -> dict:
    """a small tree of Lua files with require calls; all paths are relative POSIX paths below a root"""
    dirs = ["", "lib", "lib/sub", "sp1", "sp2", "sp1/lib"]
    search = r.sample(["sp1", "sp2", ""], r.randint(0, 3))
    files: dict[str, str] = {}
    trap_dirs: list[str] = []
    nmods = r.randint(1, 5)
    mods = []
    counter = itertools.count(1)
    for i in range(nmods):
        parts = r.choice([["m%d" % i], ["lib", "m%d" % i], ["lib", "sub", "m%d" % i]])
        name = ".".join(parts)
        sfx = r.choice(["", ".tl", ".lua", ".lua"])
        # candidate homes: the main directory, or one of the search paths
        homes = [""] + search
        placed = r.sample(homes, r.randint(1, len(homes)))
        for h in placed:
            path = str(PurePosixPath(h, *parts)) + sfx
            files[path] = i  # content filled below; remembers the module index
        if r.random() < 0.2:
            trap_dirs.append(str(PurePosixPath(r.choice(homes), *parts)))   # a directory with the module's bare name
        mods.append(name)
    expr_only = {m for m in mods if r.random() < 0.4}

    def body(path: str, depth: int, index: int = -1) -> str:
        lines = [f"marker_{next(counter)} = '{path}'"]
        if r.random() < 0.3:
            # `as` and `is` are ordinary names of Lua, whatever the suffix of the file (only typed=True makes them keywords)
            lines.append(r.choice(["local as, is = 1, 2", "is = as", "function is(as) return as end"]))
        # acyclic: a module may only require modules with a larger index (statement-level cycles: see `cycle`)
        allowed = mods[index + 1:]
        if cycle and index >= 0:
            allowed = [m for m in mods if m not in expr_only][: cycle]
        if depth > 0 and allowed:
            for _ in range(r.randint(0, 3)):
                m = r.choice(allowed)
                k = next(counter)
                # the same module may be required at expression level and at statement level (any order across statements)
                if m in expr_only and r.random() < 0.5:
                    tmpl = r.choice([t for t in REQ_POSITIONS if "{E}" in t])
                else:
                    tmpl = r.choice(REQ_POSITIONS)
                call = r.choice(['require("%s")', "require '%s'", 'require "%s"', "require[[%s]]"]) % m
                lines.append(tmpl.replace("{E}", call).replace("{R2}", call).replace("{R}", call).replace("{k}", str(k)))
        lines.append(f"tail_{next(counter)}()")
        if k4 and r.random() < 0.5:
            lines.append("return marker")
        return "\n".join(lines) + "\n"

    trap_dirs = [d for d in trap_dirs if d not in files and not any(f.startswith(d + "/") for f in files)]
    for p in list(files):
        files[p] = body(p, 1 if (cycle or r.random() < 0.6) else 0, files[p])
    trailer = [f"require('{m}')\n" for m in mods if r.random() < 0.5] + [f"last_{i} = require('{m}')\n" for i, m in enumerate(mods) if r.random() < 0.5]
    r.shuffle(trailer)
    files["main.lua"] = body("main.lua", 2) + "".join(trailer) + \
        "x:require('nope')\nt.require('nope')\nrequirex('nope')\nlocal r = require\n"
    return {"files": files, "dirs": sorted(set(trap_dirs)), "main": "main.lua", "search": search}


def tree_lookup(tree: dict, name: str, start_dir: str) -> str | None:
    """the reference for file lookup: requiring file's directory, then the search paths, suffixes '', .tl, .lua"""
    parts = name.split(".")
    if not parts[0]:
        return None
    for d in [start_dir] + tree["search"]:
        for sfx in ("", ".tl", ".lua"):
            cand = str(PurePosixPath(d, *[p for p in parts if p])) if False else str(PurePosixPath(d, *parts))
            cand = cand + sfx
            cand = str(PurePosixPath(cand))
            if cand in tree["files"]:
                return cand
    return None


class ExpectDependencyError(Exception):
    pass


def expected_inline(tree: dict, refs: dict[str, Any]) -> list[str]:
    """the specification of inlining, on Spec trees: returns the acceptable canonical texts"""
    found: set[str] = set()

    def module_of(args) -> str:
        if len(args) != 1 or not (isinstance(args[0], list) and args[0] and args[0][0] == "str"):
            raise ExpectDependencyError("argument shape")
        return "".join(chr(int(u, 16)) for u in args[0][1:])

    def is_require(e) -> bool:
        return isinstance(e, list) and len(e) >= 2 and e[0] == "call" and e[1] == ["name", "require"]

    def tr(x, cur_dir: str, va: str):
        if not isinstance(x, list) or not x:
            return x
        if x[0] == "block":
            out = ["block"]
            for s in x[1:]:
                if isinstance(s, list) and s and s[0] == "callstat" and is_require(s[1]):
                    name = module_of(s[1][2:])
                    path = tree_lookup(tree, name, cur_dir)
                    if path is None:
                        raise ExpectDependencyError("not found")
                    if path in found:
                        continue   # an empty statement
                    found.add(path)
                    inner = tr(refs[path], str(PurePosixPath(path).parent) if "/" in path else "", va)
                    out.extend(inner[1:])
                else:
                    out.append(tr(s, cur_dir, va))
            return out
        if is_require(x):
            name = module_of(x[2:])
            path = tree_lookup(tree, name, cur_dir)
            if path is None:
                raise ExpectDependencyError("not found")
            found.add(path)
            inner = tr(refs[path], str(PurePosixPath(path).parent) if "/" in path else "", va)
            return ["call", ["func", [], va, inner], x[2]]
        return [tr(y, cur_dir, va) for y in x]

    outs = []
    for va in ("nova", "va"):
        found.clear()
        outs.append("ok " + sexp_show(tr(refs[tree["main"]], "", va)))
    return outs


_FIXED_ROOT: Path | None = None


def fixed_root() -> Path:
    """ONE directory per process, emptied before every use: successive file trees live under the same absolute paths with different
    contents, so anything the resolver remembers about a path from an earlier call (a lookup or parse cache) is stale and shows"""
    global _FIXED_ROOT
    if _FIXED_ROOT is None:
        _FIXED_ROOT = Path(tempfile.mkdtemp(prefix="tumfl-verif-fixed-"))
        import atexit
        atexit.register(shutil.rmtree, _FIXED_ROOT, True)
    _FIXED_ROOT.mkdir(exist_ok=True)
    for child in list(_FIXED_ROOT.iterdir()):
        if child.is_dir() and not child.is_symlink():
            shutil.rmtree(child, ignore_errors=True)
        else:
            child.unlink(missing_ok=True)
    return _FIXED_ROOT


def materialise(tree: dict, root: Path | None = None) -> Path:
    root = root or Path(tempfile.mkdtemp(prefix="tumfl-verif-tree-"))
    for d in tree.get("dirs", []):
        (root / d).mkdir(parents=True, exist_ok=True)
    for p, content in tree["files"].items():
        f = root / p
        f.parent.mkdir(parents=True, exist_ok=True)
        if not f.is_dir():
            f.write_text(content, encoding="utf-8")
    return root


def resolve_tree(tree: dict):
    """run the real resolver on a real directory tree: ('ok', ast) | ('dep', e) | ('timeout', None) | ('other', e)"""
    root = materialise(tree, fixed_root())
    try:
        with quiet():
            try:
                ast = with_watchdog(10, tumfl.resolve_recursive, root / tree["main"], [root / s for s in tree["search"]])
                return "ok", ast
            except InvalidDependencyError as e:
                return "dep", e
            except Timeout:
                return "timeout", None
            except RecursionError as e:
                return "recursion", e
            except Exception as e:  # noqa: BLE001
                return "other", e
    finally:
        shutil.rmtree(root, ignore_errors=True)


def tree_refs(tree: dict) -> dict[str, Any] | None:
    paths = list(tree["files"])
    answers = drive([("refparse", hx(tree["files"][p])) for p in paths])
    if not all(a.startswith("ok") for a in answers):
        raise fw.InfraError(f"file tree generator produced an invalid file: {[(p, a) for p, a in zip(paths, answers) if not a.startswith('ok')][:2]}")
    return {p: sexp_parse(a[3:]) for p, a in zip(paths, answers)}


def has_remaining_require(sexp) -> bool:
    if isinstance(sexp, list):
        if len(sexp) == 3 and sexp[0] == "call" and sexp[1] == ["name", "require"] and isinstance(sexp[2], list) and sexp[2][:1] == ["str"]:
            return True
        return any(has_remaining_require(y) for y in sexp)
    return False


def eval_resolve(ctx: fw.Ctx, st: fw.Stream, trees: list[dict], styles: list) -> None:
    todo = []
    for tree in trees:
        case = {"kind": "filetree", "files": tree["files"], "dirs": tree.get("dirs", []), "main": tree["main"], "search": tree["search"]}
        st.record(case, key=json.dumps(case, sort_keys=True))
        refs = tree_refs(tree)
        try:
            want = expected_inline(tree, refs)
        except ExpectDependencyError as e:
            # (a search-path permutation can make a module unreachable) the reference says: InvalidDependencyError
            status, ast = resolve_tree(tree)
            if status != "dep":
                st.fail(f"the reference lookup finds no file ({e}) but resolution gave: {status}", case)
            continue
        status, ast = resolve_tree(tree)
        if status != "ok":
            st.fail(f"resolution failed: {status}: {ast}", case)
            continue
        try:
            mine = "ok " + absast.abs_chunk(ast)
        except absast.AbsError as e:
            st.fail(f"resolved AST has an unexpected shape: {e}", case)
            continue
        if mine not in want:
            st.fail("resolved program differs from the specification of inlining", dict(case, expected=want[0][:3000], got=mine[:3000]))
            continue
        if has_remaining_require(sexp_parse(mine[3:])):
            st.fail("a require(<string literal>) call remains", dict(case, got=mine[:3000]))
            continue
        for sd in styles:
            sty = None if sd is None else (MinifiedStyle if sd == "min" else mkstyle(sd))
            fs, out = tformat(ast, sty)
            if fs != "ok":
                st.fail(f"formatting the resolved program failed: {fs} {out!r}", dict(case, style=sd))
                continue
            todo.append((dict(case, style=sd), mine, out))
    outs = refparse([t[2] for t in todo])
    for (case, mine, out), got in zip(todo, outs):
        if got != mine:
            st.fail("resolved program does not format to the same valid Lua" if got.startswith("ok") else "resolved program formats to invalid Lua",
                    dict(case, output=out[:3000], reparsed=got[:2000], expected=mine[:2000]))


def run_c04(ctx: fw.Ctx) -> None:
    r = ctx.rng("c04")
    st = ctx.stream("G5 random acyclic file trees (nested dirs, shadowing, three suffixes, search-path orders) x both styles")
    trees = [make_file_tree(r, faults=False) for _ in range(ctx.n(150, 3000))]
    eval_resolve(ctx, st, trees, [None, "min"])
    st2 = ctx.stream("one tree under every search-path permutation")
    base = make_file_tree(r, faults=False)
    perms = [list(p) for n in range(0, 4) for p in itertools.permutations(["sp1", "sp2", ""], n)]
    eval_resolve(ctx, st2, [dict(base, search=p) for p in perms], [None])
    st2.exhaustive = True
    lookalike_stream(ctx)
    st_two = ctx.stream("the same module name in two directories, required from files in both (each must get the file next to it), statement and expression level, either order")
    two = []
    for pre in ["require('helper')\n", "local h0 = require('helper')\n", ""]:
        for how in ["require('lib.mod')", "local m = require('lib.mod')", "t = { k = require('lib.mod') }"]:
            for inner in ["require('helper')", "local h = require('helper')", "function g() return require('helper') end"]:
                for post in ["", "require('helper')\n", "u = require('helper')\n"]:
                    for sp in ([], [""], ["lib"]):
                        two.append({"files": {"main.lua": f"start()\n{pre}{how}\n{post}", "lib/mod.lua": f"in_mod()\n{inner}\ntail_mod()\n", "helper.lua": "in_root_helper()\n",
                                              "lib/helper.lua": "in_lib_helper()\n"}, "dirs": [], "main": "main.lua", "search": sp})
    eval_resolve(ctx, st_two, two[:: ctx.n(3, 1)], [None])
    st_two.exhaustive = not ctx.quick
    st_sys = ctx.stream("a require in every syntactic site, in the main file and in a required file")
    sys_trees = []
    for i, tmpl in enumerate(REQ_POSITIONS):
        line = tmpl.replace("{E}", "require('lib.m')").replace("{R2}", "require 'lib.m'").replace("{R}", "require('lib.m')").replace("{k}", str(i))
        sys_trees.append({"files": {"main.lua": f"start()\n{line}\ntail()\n", "lib/m.lua": "in_m()\n"}, "dirs": [], "main": "main.lua", "search": []})
        if "{R}" in tmpl:
            # what the required file begins with matters for the text around the splice: a bracket, a comment and a bracket, a long comment
            for mod in ("('s'):m()\nin_m()\n", "-- hello\n('s'):m()\n", "--[[ long\ncomment ]]\n(f or g)()\nin_m()\n", "-- only a comment\n", "", ";\n(f)()\n"):
                sys_trees.append({"files": {"main.lua": f"start()\n{line}\ntail()\n", "lib/m.lua": mod}, "dirs": [], "main": "main.lua", "search": []})
        sys_trees.append({"files": {"main.lua": "start()\nlocal a = require('lib.a')\ntail()\n", "lib/a.lua": f"in_a()\n{line.replace('lib.m', 'm')}\ntail_a()\n",
                                    "lib/m.lua": "in_m()\n"}, "dirs": [], "main": "main.lua", "search": []})
    eval_resolve(ctx, st_sys, sys_trees, [None, "min"])
    st_sys.exhaustive = True
    st3 = ctx.stream("random styles on resolved programs")
    eval_resolve(ctx, st3, [make_file_tree(r, faults=False) for _ in range(ctx.n(30, 400))], [style_space(r), style_space(r)])
    t2_resolve(ctx, trees[: ctx.n(80, 1500)] + [dict(base, search=p) for p in perms])
    entry = next((k for k in fw.load_known().get("findings", []) if k["id"] == "K4" and k["property"] == "C04"), None)
    if entry:
        stw = ctx.stream("known-finding witnesses K4")
        eval_resolve(ctx, stw, entry["trees"], [None, "min"])
        for f in stw.failures:
            f.case["known"] = "K4"
        fw._KNOWN_RUNTIME[("C04", "K4")] = f"{len(stw.failures)} failing checks on {len(entry['trees'])} listed trees"


register(
    "C04",
    run=run_c04,
    modules=["Tumfl.Props.C11"],
    obligations=["Tumfl.Props.C11_roundtrip"],
    classify=classify_k,
    rule="random trees of Lua files on a real temporary directory (<= 5 modules, nested directories, the same module on several search paths, "
         "suffixes '', .tl, .lua, directories carrying a module's bare name, requires in 60 syntactic positions); oracle: specification of inlining "
         "computed on the Lean Spec's trees of the files with an independent lookup, then format in both styles re-read by the Spec; distinct = distinct trees",
    partial_hypotheses=["no theorem about the model resolver yet"],
)


# =========================================================================== C12 uninlinable requires
FAULTS = {
    "missing-module": 'require("does.not.exist")',
    "missing-simple": "require 'nosuchmodule'",
    "directory-only": 'require("onlydir")',
    "empty-name": 'require("")',
    "empty-first-component": 'require(".hidden")',
    "no-arguments": "require()",
    "two-arguments": 'require("m0", "m0")',
    "non-literal-argument": "require(modname)",
    "table-argument": "require{'m0'}",
    "number-argument": "require(42)",
    "concat-argument": 'require("m" .. "0")',
    # a leading dot in front of a module that does exist: still an empty first component
    "dot-existing": 'require(".{EXISTING}")',
    "dotdot-existing": 'require("..{EXISTING}")',
    # the same faults with a comment between `require` and its arguments (a textual pre-scan for require calls does not see them)
    "missing-after-comment": 'require --[[c]] ("does.not.exist")',
    "two-arguments-after-comment": 'require --[==[ c ]==] ("m0", "m0")',
}
FAULT_SITES = [t.replace("{R2}", "{F}").replace("{R}", "{F}").replace("{E}", "{F}").replace("{k}", "") for t in REQ_POSITIONS] + ["return {F}", "return 1, {F}"]


def inject_fault(r: random.Random, tree: dict, fault: str, site: str, where: str) -> tuple[dict, int]:
    """insert a faulty require into file `where` (before its tail line); returns the tree and the 1-based line of the call"""
    files = dict(tree["files"])
    lines = files[where].split("\n")
    existing = sorted(p for p in files if "/" not in p and p != tree["main"])
    ex = PurePosixPath(existing[0]).stem if existing else "main"
    stmt = site.replace("{F}", FAULTS[fault].replace("{EXISTING}", ex))
    if stmt.startswith("return"):
        pos = len(lines) - 1
        # a return must be last: drop what follows
        lines = lines[:pos] + [stmt]
        line_no = pos + 1
    else:
        pos = 1
        lines.insert(pos, stmt)
        line_no = pos + 1
    files[where] = "\n".join(lines) + ("\n" if not lines[-1] == "" else "")
    dirs = list(tree.get("dirs", []))
    if fault == "directory-only":
        dirs += ["onlydir", "sp1/onlydir", "sp2/onlydir", "lib/onlydir"]
    return dict(tree, files=files, dirs=dirs), line_no


def first_use_order(tree: dict) -> list[str]:
    """files in the order the resolver first reaches them (main first)"""
    return [tree["main"]] + [p for p in tree["files"] if p != tree["main"]]


def lookalike_stream(ctx: fw.Ctx) -> None:
    st_like = ctx.stream("calls that only LOOK like require(<string>) - method calls on or fields of a value named require, require as a field or method name: untouched, nothing raised")
    for like in ["require:get('m0')", "local m = require:load('m0')", "x.require('m0')", "x:require('m0')", "require.m('m0')", "local v = require.sub.f 'm0'",
                 "require:get('nosuch')", "x.require('nosuch')", "y = x:require 'nosuch'", "require['m0']('m0')", "z = require:new('m0'):init('m0')"]:
        for exists in (True, False):
            for wrap in ["{S}", "do {S} end", "function g() {S} end"]:
                src = "start()\n" + wrap.replace("{S}", like) + "\ntail()\n"
                files = {"main.lua": src}
                if exists:
                    files["m0.lua"] = "in_m0()\n"
                case = {"kind": "filetree", "files": files, "dirs": [], "main": "main.lua", "search": [""]}
                st_like.record(case, key=json.dumps(case, sort_keys=True))
                status, res = resolve_tree(case)
                if status != "ok":
                    st_like.fail(f"a program without any require(<string>) call does not resolve: {status} {res!r}"[:300], case)
                    continue
                s0, plain = tparse(src)
                if s0 != "ok" or absast.abs_chunk(res) != absast.abs_chunk(plain):
                    st_like.fail("a call that only looks like require() was rewritten", case)
    st_like.exhaustive = True


def run_c12(ctx: fw.Ctx) -> None:
    r = ctx.rng("c12")
    st = ctx.stream("every fault kind x syntactic site x file of generated dependency trees")
    n_trees = ctx.n(6, 60)
    combos = [(f, s) for f in FAULTS for s in FAULT_SITES]
    for ti in range(n_trees):
        tree = make_file_tree(r, faults=False)
        # only files that the clean resolution actually reaches can raise
        refs = tree_refs(tree)
        reached = [tree["main"]]
        for p in tree["files"]:
            pass
        status, ast = resolve_tree(tree)
        if status != "ok":
            st.fail(f"clean tree does not resolve: {status} {ast}", {"kind": "filetree", **tree})
            continue
        text = absast.abs_chunk(ast)
        # a file was inlined iff its marker assignment (whose value is exactly its path) is in the resolved program
        reached = [p for p in tree["files"] if "(str" + "".join(" " + format(ord(c), "x") for c in p) + ")" in text or p == tree["main"]]
        picks = combos if not ctx.quick else r.sample(combos, 40)
        for fault, site in picks:
            where = r.choice(reached)
            if site.startswith("return") and where != tree["main"] and True:
                # a return inside a statement-level inlined file is K4 territory; keep returns in main only
                where = tree["main"]
            bad, line_no = inject_fault(r, tree, fault, site, where)
            case = {"kind": "filetree", "files": bad["files"], "dirs": bad["dirs"], "main": bad["main"], "search": bad["search"],
                    "fault": fault, "site": site, "in_file": where}
            st.record(case, key=json.dumps(case, sort_keys=True))
            status, res = resolve_tree(bad)
            if status == "ok":
                st.fail("an uninlinable require call was accepted silently", case)
            elif status != "dep":
                st.fail(f"uninlinable require raised {status}: {res!r} instead of InvalidDependencyError", case)
            elif res.token.line != line_no:
                st.fail("InvalidDependencyError does not designate the offending call", dict(case, token_line=res.token.line, expected_line=line_no))
    st_sys = ctx.stream("every syntactic site x every fault kind, in the main file and one and two files down the tree")
    for site in FAULT_SITES:
        for fault in FAULTS:
            for depth in ((0, 1, 2) if not ctx.quick else (dh(site + fault) % 3,)):
                base = {"files": {"main.lua": "start()\nrequire('lib.a')\ntail()\n", "lib/a.lua": "in_a()\nlocal b = require('lib.b')\ntail_a()\n",
                                  "lib/b.lua": "in_b()\ntail_b()\n", "m0.lua": "in_m0()\n"}, "dirs": [], "main": "main.lua", "search": [""]}
                where = ["main.lua", "lib/a.lua", "lib/b.lua"][depth]
                if site.startswith("return") and where == "lib/a.lua":
                    where = "lib/b.lua"   # a return in a statement-level inlined file is K4 territory
                bad, line_no = inject_fault(r, base, fault, site, where)
                case = {"kind": "filetree", "files": bad["files"], "dirs": bad["dirs"], "main": bad["main"], "search": bad["search"],
                        "fault": fault, "site": site, "in_file": where}
                st_sys.record(case, key=json.dumps(case, sort_keys=True))
                status, res = resolve_tree(bad)
                if status == "ok":
                    st_sys.fail("an uninlinable require call was accepted silently", case)
                elif status != "dep":
                    st_sys.fail(f"uninlinable require raised {status}: {res!r} instead of InvalidDependencyError", case)
                elif res.token.line != line_no:
                    st_sys.fail("InvalidDependencyError does not designate the offending call", dict(case, token_line=res.token.line, expected_line=line_no))
    st_sys.exhaustive = True
    st_ret = ctx.stream("a faulty require inside the return expression of a required file that consists of nothing but that return, required at statement and at expression level")
    for fault in FAULTS:
        for how in ["require('onlyret')", "do require 'onlyret' end", "if c then else require('onlyret') end", "local m = require('onlyret')", "f(require('onlyret'))"]:
            for body in ["return {{ util = {F} }}", "return {F}", "return 1, f({F})", "-- c\nreturn function() return {F} end"]:
                call = FAULTS[fault].replace("{EXISTING}", "m0")
                text = body.replace("{F}", call).replace("{{", "{").replace("}}", "}")
                files = {"main.lua": f"start()\n{how}\n", "onlyret.lua": text + "\n", "m0.lua": "in_m0()\n"}
                dirs = ["onlydir"] if fault == "directory-only" else []
                case = {"kind": "filetree", "files": files, "dirs": dirs, "main": "main.lua", "search": [""], "fault": fault}
                st_ret.record(case, key=json.dumps(case, sort_keys=True))
                status, res = resolve_tree(case)
                if status == "ok":
                    st_ret.fail("an uninlinable require call in a return expression was accepted silently", case)
                elif status != "dep":
                    st_ret.fail(f"uninlinable require raised {status}: {res!r} instead of InvalidDependencyError", case)
                elif res.token.line != text.count("\n", 0, text.index(call)) + 1:
                    st_ret.fail("InvalidDependencyError does not designate the offending call", dict(case, token_line=res.token.line))
    st_ret.exhaustive = True
    st_deep = ctx.stream("a chain of 45 files, each requiring the next, the fault in the last one (statement level and expression level)")
    for level in ("stmt", "expr"):
        for fault in ("missing-module", "two-arguments"):
            files = {"main.lua": "require('c1')\n" if level == "stmt" else "local v = require('c1')\n"}
            for i in range(1, 45):
                files[f"c{i}.lua"] = (f"in_c{i}()\nrequire('c{i + 1}')\n" if level == "stmt" else f"in_c{i}()\nreturn require('c{i + 1}')\n")
            files["c45.lua"] = "in_c45()\n" + FAULTS[fault] + "\n"
            files["m0.lua"] = "in_m0()\n"
            case = {"kind": "filetree", "files": files, "dirs": [], "main": "main.lua", "search": []}
            st_deep.record(case, key=json.dumps(case, sort_keys=True))
            status, res = resolve_tree(case)
            if status != "dep":
                st_deep.fail(f"an uninlinable require 45 files down the chain: {status} {res!r}"[:300], case)
    st_deep.exhaustive = True
    lookalike_stream(ctx)
    st_rel = ctx.stream("a module that exists only next to the requiring file's *requirer* is not found (lookup starts at the file's own directory)")
    hows = ["local m = require('lib.mod')", "f(require 'lib.mod')", "return require('lib.mod')", "require('lib.mod')", "t = { k = require('lib.mod') }", "local m = require('lib.mod').x"]
    inners = ["require('helper')", "local h = require('helper')", "do require 'helper' end", "function g() return require('helper') end"]
    # `pre`: the main file has ALREADY resolved the same module name from its own directory (a lookup remembered by name only would answer for lib/ as well)
    pres = ["", "require('helper')\n", "local h0 = require('helper')\n"]
    combos_rel = [(h, i_, p_, o) for h in hows for i_ in inners for p_ in pres for o in (0, 1, 2) if not (h.startswith("return") and False)]
    if ctx.quick:
        combos_rel = combos_rel[::2]
    for how, inner, pre, other in combos_rel:
        files = {"main.lua": f"start()\n{pre}{how}\n", "lib/mod.lua": f"in_mod()\n{inner}\n", "helper.lua": "in_root_helper()\n"}
        if other:
            files["other/helper.lua"] = "in_other_helper()\n"
        tree = {"files": files, "dirs": [], "main": "main.lua", "search": ["other"] if other == 2 else []}
        case = {"kind": "filetree", **tree}
        st_rel.record(case, key=json.dumps(case, sort_keys=True))
        status, res = resolve_tree(tree)
        want_found = "other" in tree["search"]
        if want_found:
            if status != "ok" or "in_other_helper" not in absast.abs_chunk(res).replace("69 6e 5f 6f 74 68 65 72 5f 68 65 6c 70 65 72", "in_other_helper") and False:
                st_rel.fail(f"module on the search path not inlined: {status} {res!r}", case)
        elif status == "ok":
            st_rel.fail("a require that can only be satisfied from the wrong directory was inlined silently", case)
        elif status != "dep":
            st_rel.fail(f"raised {status}: {res!r} instead of InvalidDependencyError", case)
    st2 = ctx.stream("look-alike calls are left untouched")
    for i in range(ctx.n(20, 300)):
        tree = make_file_tree(r, faults=False)
        tree["files"]["main.lua"] += "o:require('does.not.exist')\nt.require('does.not.exist')\nrequired('does.not.exist')\n_require 'x'\nlocal z = t.require\n" \
                                     "q = {require = 1, [require] = 2}\nlocal function f(require) return require end\n"
        case = {"kind": "filetree", **tree}
        st2.record(case, key=json.dumps(case, sort_keys=True))
        status, res = resolve_tree(tree)
        if status != "ok":
            st2.fail(f"look-alike call made resolution fail: {status} {res}", case)
            continue
        text = absast.abs_chunk(res)
        for probe in ["(callstat (mcall (name o) require (str 64 6f 65 73 2e 6e 6f 74 2e 65 78 69 73 74)))",
                      "(callstat (call (dot (name t) require) (str 64 6f 65 73 2e 6e 6f 74 2e 65 78 69 73 74)))",
                      "(callstat (call (name required) (str 64 6f 65 73 2e 6e 6f 74 2e 65 78 69 73 74)))",
                      "(callstat (call (name _require) (str 78)))"]:
            if probe not in text:
                st2.fail("a call that only looks like require was changed", dict(case, missing=probe))
    t2_trees = []
    for _ in range(ctx.n(25, 400)):
        t = make_file_tree(r, faults=False)
        bad, _ln = inject_fault(r, t, r.choice(list(FAULTS)), r.choice(FAULT_SITES), r.choice(list(t["files"])))
        t2_trees.append(bad)
    t2_resolve(ctx, t2_trees)
    st3 = ctx.stream("statement-level dependency cycles of length 1..3 terminate")
    for n in (1, 2, 3):
        for variant in range(ctx.n(4, 40)):
            names = [f"c{i}" for i in range(n)]
            files = {"main.lua": "begin()\nrequire('c0')\nfinish()\n"}
            for i, nm in enumerate(names):
                nxt = names[(i + 1) % n]
                wrap = r.choice(["require('%s')", "do require('%s') end", "if x then require('%s') end", "function f%d() require('%%s') end" % i])
                files[nm + r.choice([".lua", ".tl", ""])] = f"enter_{nm}()\n" + (wrap % nxt) + f"\nleave_{nm}()\n"
            tree = {"files": files, "dirs": [], "main": "main.lua", "search": []}
            case = {"kind": "filetree", **tree}
            st3.record(case, key=json.dumps(case, sort_keys=True))
            status, res = resolve_tree(tree)
            if status != "ok":
                st3.fail(f"statement-level cycle: {status} {res!r}", case)
                continue
            text = absast.abs_chunk(res)
            for nm in names:
                if text.count(f"(callstat (call (name enter_{nm})))") != 1:
                    st3.fail("a file of a statement-level cycle is not inlined exactly once", dict(case, got=text[:1500]))
                    break


register(
    "C12",
    run=run_c12,
    modules=["Tumfl.Props.C11"],
    obligations=["Tumfl.Props.C11_roundtrip"],
    rule="11 fault kinds x 12 syntactic sites injected into files of generated dependency trees on a real temporary directory; look-alike calls; "
         "statement-level cycles of length 1..3; oracle: exception type, the line of the offending call, untouched look-alikes, each cycle file inlined once; "
         "distinct = distinct (tree, fault, site, file)",
    partial_hypotheses=["no theorem about the model resolver yet"],
)


# =========================================================================== C14 purity and history independence
import copy
import threading


def deep_snapshot(node) -> str:
    """everything reachable from an AST, including tokens, comments, parents (by class name) - to detect mutation by format()"""
    seen = {}

    def go(x, depth=0):
        if isinstance(x, ASTNode):
            if id(x) in seen:
                return f"<ref {seen[id(x)]}>"
            seen[id(x)] = len(seen)
            return {"cls": type(x).__name__, **{k: go(v, depth + 1) for k, v in sorted(vars(x).items()) if k != "parent_class"},
                    "parent": type(x.parent_class).__name__ if x.parent_class is not None else None}
        if isinstance(x, AttributedName):
            return {"cls": "AttributedName", "name": go(x.name), "attribute": go(x.attribute)}
        if isinstance(x, Token):
            return ("Token", str(x.type), repr(x.value), x.line, x.column, list(x.comment))
        if isinstance(x, (list, tuple)):
            return [go(y, depth + 1) for y in x]
        if isinstance(x, Path):
            return x.name
        if hasattr(x, "name") and hasattr(x, "value") and not isinstance(x, (str, bytes)):
            return str(x)
        return repr(x)

    return json.dumps(go(node), sort_keys=True, default=str)


class ApiWorld:
    """runs API calls; every result is rendered to a comparable string"""

    def __init__(self, tree_root: Path | None):
        self.lexers: dict[int, Lexer] = {}
        self.root = tree_root

    def call(self, op: tuple) -> str:
        before = (sys.getrecursionlimit(), sys.getswitchinterval(), sys.flags.utf8_mode, os.getcwd())
        res = self._call(op)
        after = (sys.getrecursionlimit(), sys.getswitchinterval(), sys.flags.utf8_mode, os.getcwd())
        if before != after:
            return f"MUTATED-PROCESS-STATE (recursion limit / switch interval / working directory): {before} -> {after}"
        return res

    def _call(self, op: tuple) -> str:
        kind = op[0]
        with quiet():
            try:
                if kind == "parse":
                    return "ast:" + struct_json(tumfl.parse(op[1]))
                if kind == "format":
                    ast = tumfl.parse(op[1])
                    sty = None if op[2] is None else (MinifiedStyle if op[2] == "min" else mkstyle(op[2]))
                    before = deep_snapshot(ast)
                    sbefore = None if sty is None else style_dict(sty)
                    classes = [c for c in (sty or FormattingStyle).__mro__ if c is not object]
                    vbefore = [{k: repr(v) for k, v in vars(c).items()} for c in classes]
                    out = tumfl.format(ast, sty)
                    if deep_snapshot(ast) != before:
                        return "MUTATED-AST"
                    if sty is not None and style_dict(sty) != sbefore:
                        return "MUTATED-STYLE"
                    if [{k: repr(v) for k, v in vars(c).items()} for c in classes] != vbefore:
                        return "MUTATED-STYLE-CLASS (an attribute was added to or changed on the style class or one of its bases)"
                    if style_dict(FormattingStyle) != DEFAULT_STYLE_VALUES or style_dict(MinifiedStyle) != MINIFIED_STYLE_VALUES:
                        return "MUTATED-BUILTIN-STYLE"
                    return "text:" + out
                if kind == "resolve":
                    sp = [self.root / s for s in op[2]]
                    sp_before = list(sp)
                    ast = tumfl.resolve_recursive(self.root / op[1], sp, op[3] if len(op) > 3 else False)
                    if sp != sp_before:
                        return "MUTATED-SEARCH-PATH (resolve_recursive changed the list the caller passed)"
                    return "ast:" + struct_json(ast) + "|" + json.dumps([c.replace(str(self.root), "<root>") for c in ast.comment])
                if kind == "lexer_new":
                    self.lexers[op[1]] = Lexer(op[2], typed=op[3])
                    return "ok"
                if kind == "lexer_next":
                    lx = self.lexers.get(op[1])
                    if lx is None:
                        return "no-lexer"
                    out = []
                    for _ in range(op[2]):
                        t = lx.get_next_token()
                        out.append(f"{t.type.name}:{t.value!r}@{t.line}:{t.column}")
                    return " ".join(out)
                if kind == "parse_opts":
                    from tumfl.parser import Parser
                    p = Parser(op[1], typed=op[2], ignore_unicode_errors=op[3])
                    ast = p.parse_chunk()
                    p._assert(TokenType.EOF)  # noqa: SLF001
                    return "ast:" + struct_json(ast)
                if kind == "include_typing":
                    # the legacy global switch: whatever it does to the module-level table, no later call may behave differently
                    import tumfl.lexer as _lx
                    if hasattr(_lx, "include_typing"):
                        _lx.include_typing(op[1])
                    return "ok"
                if kind == "parser_typed":
                    from tumfl.parser import Parser
                    p = Parser(op[1], typed=True)
                    return f"{p.current_token.type.name} {p.next_token.type.name}"
            except TumflError as e:
                return f"error:{type(e).__name__}:{e}"
            except Exception as e:  # noqa: BLE001
                return f"EXC:{type(e).__name__}:{e}"
        return "bad-op"


def struct_json(ast) -> str:
    return json.dumps(struct_dump(ast), sort_keys=True, default=str)


DEFAULT_STYLE_VALUES = style_dict(FormattingStyle)
MINIFIED_STYLE_VALUES = style_dict(MinifiedStyle)

C14_TREE = {"files": {"main.lua": "a = 1\nrequire('m')\nb = require('lib.n')\nrequire('m')\nc = require('util')\nrequire('util')\n", "m.lua": "in_m()\n",
                      "lib/n.lua": "return {n = 1}\n", "lib/util.lua": "util = 1\n", "alt/util.lua": "util = 2\nrequire('m')\n",
                      "bad.lua": "require('missing')\n", "needs.lua": "require('util')\n"}, "dirs": [], "main": "main.lua", "search": []}


# programs whose layout depends on the indentation width of the style (a bracket group that fits or not at depth 1..3)
WIDE_PROGS = ["do do f(aaaaaaaaaa, bbbbbbbbbb, cccccccccc, dddddddddd, ee) end end",
              "do do do t = {aaaaaaaa, bbbbbbbb, cccccccc, 'a long string literal with words', dddddd} end end end",
              "function f() if a then return g(aaaaaaaaaaaa, bbbbbbbbbbbb, cccccccccccc, dddddddd) end end"]


def random_history(r: random.Random, n: int) -> list[tuple]:
    progs_ok = ["x = 1 + 2 * 3", "local is, as = 1, 2 return is + as", "for i = 1, 2 do print(i) end -- c", "f'as' ; g\"is\"", "t = {1, [2] = 3, x = 4}",
                "while x do --[[ c ]] break end", "function a.b:c(...) return ... end", "if a then b() else if c then d() end end",
                "if a then else if b then else if c then end end end", "x = a - (b - c) .. 'q' ; (f)()", "-- c1\nlocal t <const> = {f = function() return end}"]
    progs_ok = progs_ok + [gen.program(r, gen.Cfg(max_depth=2, max_stats=3)) for _ in range(3)]
    progs_bad = ["x = ", "x = 'abc", "end", "x = 1 end y = 2", "f(", "x = 0x", "local function", "a.b", "x = \"\\q\"",
                 # failures that strike while the lexer holds pending state (comments read and not yet delivered, an open hint)
                 "x = 1\n-- helpers\n--[[ TODO never closed", "-- pending\n--[==[ open", "-- c1\n--[[ c2 ]] 'unclosed", "f(g(h(1,\n-- c\n--[[ open",
                 "-- c\nx = [[ never closed", "t = {1, {2, -- c\n\"abc\n",
                 # deeply bracketed inputs that fail (anything a parse adjusts for deep input must be put back when it fails)
                 "x = " + "{" * 30, "x = " + "(" * 30 + "1", "f(" * 28]
    typed_text = "x as y is z as is"
    ops = []
    nlex = 0
    for _ in range(n):
        k = r.random()
        if k < 0.2:
            ops.append(("parse", r.choice(progs_ok)))
        elif k < 0.35:
            ops.append(("parse", r.choice(progs_bad)))
        elif k < 0.55:
            ops.append(("format", r.choice(progs_ok + WIDE_PROGS), r.choice([None, "min", dict(ADD_ALL_BRACKETS=True, LINE_WIDTH=20), dict(INDENTATION="  ", KEEP_SEMICOLON=True),
                                                                              dict(INDENTATION=" ", LINE_WIDTH=55), dict(INDENTATION="\t\t", LINE_WIDTH=58), dict(INDENTATION="", LINE_WIDTH=50)])))
        elif k < 0.65:
            ops.append(("resolve", r.choice(["main.lua", "main.lua", "needs.lua", "bad.lua"]), r.choice([["lib"], ["alt"], ["alt", "lib"], []]), r.random() < 0.4))
        elif k < 0.8:
            ops.append(("lexer_new", nlex, typed_text, r.random() < 0.5))
            nlex += 1
        elif k < 0.92 and nlex:
            ops.append(("lexer_next", r.randrange(nlex), r.choice([1, 1, 2])))
        elif k < 0.95:
            ops.append(("include_typing", r.random() < 0.6))
        else:
            if r.random() < 0.5:
                ops.append(("parser_typed", r.choice(["x as y", "is = 1", "local as"])))
            else:
                # constructor options: the same text lexed leniently and strictly, in either order
                ops.append(("parse_opts", r.choice(['x = "\\200"', "x = '\\xff' .. '\\65'", 'x = "a\\u{D800}b"', "x = 1 as y", 'return "\\128\\255"']),
                            r.random() < 0.3, r.random() < 0.5))
    return ops


_FRESH_CACHE: dict = {}


def fresh_results(ops: list[tuple], root: Path) -> dict:
    """each distinct op evaluated ONCE in its own fresh interpreter (in parallel); lexer_next ops depend on their instance's history and are not included"""
    import concurrent.futures
    import subprocess as sp
    todo = []
    for op in ops:
        k = json.dumps(op, sort_keys=True, default=str)
        if op[0] != "lexer_next" and k not in _FRESH_CACHE and k not in [t[0] for t in todo]:
            todo.append((k, op))

    def one(item):
        k, op = item
        pr = sp.run([sys.executable, str(Path(__file__).resolve().parent / "isoworker.py"), str(root)], input=json.dumps(op, default=str) + "\n",
                    capture_output=True, text=True, timeout=120)
        try:
            return k, json.loads(pr.stdout.strip().split("\n")[-1])
        except Exception:  # noqa: BLE001
            return k, None

    with concurrent.futures.ThreadPoolExecutor(max_workers=12) as ex:
        for k, v in ex.map(one, todo):
            _FRESH_CACHE[k] = v
    return _FRESH_CACHE


def isolated_result(op: tuple, history: list[tuple], root: Path) -> str:
    """the result the same call gives in a fresh world where only the calls on the same lexer instance are replayed"""
    w = ApiWorld(root)
    if op[0] == "lexer_next":
        res = "no-lexer"
        for h in history:
            if h[0] == "lexer_new" and h[1] == op[1]:
                w.call(h)
            elif h[0] == "lexer_next" and h[1] == op[1]:
                res = w.call(h)
        return res
    return w.call(op)


def _typing_state():
    import tumfl.lexer as _lx
    return "as" in getattr(_lx, "RESERVED_KEYWORDS", {})


def _restore_typing(state: bool) -> None:
    import tumfl.lexer as _lx
    if hasattr(_lx, "include_typing"):
        with quiet():
            try:
                _lx.include_typing(state)
            except Exception:  # noqa: BLE001
                pass


def run_c14(ctx: fw.Ctx) -> None:
    r = ctx.rng("c14")
    root = materialise(C14_TREE)
    typing0 = _typing_state()
    try:
        st = ctx.stream("random histories of API calls, each result compared with the isolated call")
        all_results: list = []
        for _ in range(ctx.n(300, 6000)):
            hist = random_history(r, r.randint(2, 12))
            w = ApiWorld(root)
            case = {"kind": "history", "calls": hist}
            st.record(case, key=json.dumps(hist, sort_keys=True, default=str))
            for i, op in enumerate(hist):
                got = w.call(op)
                if got.startswith(("MUTATED", "EXC")):
                    st.fail(f"call {i} {op[0]}: {got[:200]}", case)
                    break
                # isolated: a fresh world whose own lexer history is replayed (same interpreter) ...
                want = isolated_result(op, hist[: i + 1], root)
                if got != want:
                    st.fail(f"call {i} ({op[0]}) returns a different result than in isolation", dict(case, index=i, got=got[:500], isolated=want[:500]))
                    break
                all_results.append((case, i, op, got))
            _restore_typing(typing0)
        # ... and the same call in a FRESH interpreter (module-level caches cannot leak into that one)
        fresh = fresh_results([op for _, _, op, _ in all_results], root)
        reported = set()
        for case, i, op, got in all_results:
            k = json.dumps(op, sort_keys=True, default=str)
            want = fresh.get(k)
            if op[0] != "lexer_next" and want is not None and got != want and k not in reported:
                reported.add(k)
                st.fail(f"call {i} ({op[0]}) returns a different result than the same call in a fresh interpreter", dict(case, index=i, got=got[:500], fresh=want[:500]))
        st2 = ctx.stream("the same histories in 4 concurrent threads (switch interval 1e-6)")
        import sys as _sys
        old = _sys.getswitchinterval()
        _sys.setswitchinterval(1e-6)
        try:
            for _ in range(ctx.n(40, 1500)):
                # the legacy global switch include_typing() rewrites a module-level table in place; calling it WHILE another thread constructs a lexer is
                # outside the property (it quantifies over concurrent parse / format / resolve calls), so the threaded histories leave it out
                hists = [[op for op in random_history(r, r.randint(3, 10)) if op[0] != "include_typing"] for _ in range(4)]
                results: list[list[str]] = [[] for _ in hists]

                def worker(i: int):
                    w = ApiWorld(root)
                    for op in hists[i]:
                        results[i].append(w.call(op))

                ths = [threading.Thread(target=worker, args=(i,)) for i in range(4)]
                for t in ths:
                    t.start()
                for t in ths:
                    t.join()
                _restore_typing(typing0)
                case = {"kind": "threads", "histories": hists}
                st2.record(case, key=json.dumps(hists, sort_keys=True, default=str))
                for i, h in enumerate(hists):
                    for j, op in enumerate(h):
                        want = isolated_result(op, h[: j + 1], root)
                        if results[i][j] != want:
                            st2.fail(f"thread {i} call {j} ({op[0]}) differs from the isolated call", dict(case, got=results[i][j][:300], isolated=want[:300]))
                            break
        finally:
            _sys.setswitchinterval(old)
    finally:
        shutil.rmtree(root, ignore_errors=True)


register(
    "C14",
    run=run_c14,
    modules=["Tumfl.Props.C11"],
    obligations=["Tumfl.Props.C11_roundtrip"],
    rule="random histories of 2..12 API calls (parse ok/failing, format in 4 styles with deep snapshots of AST and style, resolve ok/failing, lexers "
         "with typed True/False advanced lazily, typed parsers); each result compared with the same call in a fresh world; the same in 4 threads at "
         "switch interval 1e-6; distinct = distinct histories",
    partial_hypotheses=["thread interleavings are sampled, not enumerated; no shared-state theorem yet"],
)


# =========================================================================== T2 correspondence: model lexer vs tumfl lexer
def py_tok_canon(t: Token) -> str:
    if isinstance(t.value, tuple):
        def o(x):
            return "-" if x is None else "s" + hx(x)
        v = f"N{'true' if t.value[0] else 'false'}:{o(t.value[1])}:{o(t.value[2])}:{o(t.value[3])}:{o(t.value[4])}"
    else:
        v = "S" + hx(t.value)
    return f"{t.type.name}|{v}|{t.line}|{t.column}|{','.join('c' + hx(c) for c in t.comment)}"


def py_lex_canon(src: str, typed: bool = False) -> str:
    toks = []
    with quiet():
        try:
            lx = Lexer(src, typed)
            while True:
                t = lx.get_next_token()
                toks.append(py_tok_canon(t))
                if t.type == TokenType.EOF:
                    return "ok " + " ".join(toks)
        except LexerError as e:
            return f"err lexer {e.line} {e.column}"
        except Exception as e:  # noqa: BLE001
            return f"err py {type(e).__name__}"


def has_surrogate_escape(src: str) -> bool:
    return bool(re.search(r"\\u\{0*[dD][89a-fA-F][0-9a-fA-F]{2}\}", src))


def t2_lex(ctx: fw.Ctx, srcs: list[str], typed: bool = False, name: str = "T2:lex") -> None:
    """Correspondence: the Lean model of lexer.py and the real lexer on the same texts (token types, values,
    positions, comments, or the LexerError position).  A difference breaks the tie (not by itself a violation)."""
    st = next((s for s in ctx.streams if s.name == name + " correspondence"), None) or ctx.stream(name + " correspondence")
    srcs = [s for s in srcs if not has_surrogate_escape(s)]
    answers = drive([("mlex", "1" if typed else "0", hx(s)) for s in srcs])
    for src, ans in zip(srcs, answers):
        mine = py_lex_canon(src, typed)
        st.record({"kind": "t2-lex", "source": src[:200]}, key=src, nontrivial=True)
        if ans.startswith("err py") and mine.startswith("err py"):
            continue
        if ans != mine:
            ctx.tie_broken(name, {"source": src[:500], "model": ans[:600], "tumfl": mine[:600]})


# =========================================================================== T2 correspondence: model parser vs tumfl parser
import modeldump


def py_parse_canon(src: str) -> str:
    from tumfl.parser import Parser
    with quiet():
        try:
            p = Parser(src)
            ast = p.parse_chunk()
            p._assert(TokenType.EOF)
            return "ok " + modeldump.hints(p.context_hints) + " " + modeldump.block(ast)
        except LexerError as e:
            return f"err lexer {e.line} {e.column}"
        except ParserError as e:
            return f"err parser {e.token.type.name} {e.token.line} {e.token.column} {modeldump.hints(e.hints)}"
        except RecursionError:
            return "err py RecursionError"
        except Exception as e:  # noqa: BLE001
            return f"err py {type(e).__name__}"


def t2_parse(ctx: fw.Ctx, srcs: list[str], name: str = "T2:parse") -> None:
    """Correspondence: the Lean model of parser.py (with the model lexer underneath) and the real parser: the whole
    AST with token positions and comments and the final hint stack, or the error with its token and hint chain."""
    st = next((s for s in ctx.streams if s.name == name + " correspondence"), None) or ctx.stream(name + " correspondence")
    srcs = [s for s in srcs if not has_surrogate_escape(s)]
    answers = drive([("mparse", hx(s)) for s in srcs])
    for src, ans in zip(srcs, answers):
        mine = py_parse_canon(src)
        st.record({"kind": "t2-parse", "source": src[:200]}, key=src)
        if ans.startswith("err py") and mine.startswith("err py"):
            continue
        if ans != mine:
            ctx.tie_broken(name, {"source": src[:500], "model": ans[:800], "tumfl": mine[:800]})


# =========================================================================== T2 correspondence: model formatter vs tumfl formatter
import tumfl.formatter as FM

_SEPNAME = {FM.Separators.Statement: "stmt", FM.Separators.Newline: "newline", FM.Separators.Argument: "arg", FM.Separators.Space: "space",
            FM.Separators.Dot: "dot", FM.Separators.Indent: "indent", FM.Separators.DeIndent: "deindent", FM.Separators.Block: "block"}


def fm_private(name: str):
    """a private helper of formatter.py by name, tolerant of a change in the number of leading underscores (a rename that keeps the behaviour must not
    break the correspondence); None when there is no such function - the comparison that needs it is then skipped and noted"""
    want = name.lstrip("_")
    for k, v in FM.__dict__.items():
        if k.lstrip("_") == want and callable(v):
            return v
    return None


def show_pieces(ps) -> str:
    return " ".join(("S" + hx(p)) if isinstance(p, str) else _SEPNAME[p] for p in ps)


def style_args(sty) -> list[str]:
    d = style_dict(sty)
    out = []
    for k in STYLE_FIELDS:
        v = d[k]
        if isinstance(v, bool):
            out.append("1" if v else "0")
        elif isinstance(v, int):
            out.append(str(v))
        else:
            out.append(hx(v))
    return out


def _py_remove_orphaned(ts) -> None:
    """stand-in used only when formatter.py has no function of that name any more: the stage is then taken from the model's definition, so that the later
    stages can still be compared (the final text is always compared with tumfl.format itself)"""
    out = drive([("mpass", "orphans", _enc_pieces(ts), *style_args(FormattingStyle))])[0]
    new = []
    for w in out[3:].split():
        new.append(unhx(w[1:]) if w.startswith("S") else _SEPBYNAME[w])
    ts[:] = new


def py_format_stages(src: str, sty) -> str:
    """every stage of tumfl.format on the real code, in the format of Driver.formatStages"""
    with quiet():
        try:
            ast = tumfl.parse(src)
        except LexerError as e:
            return f"err lexer {e.line} {e.column}"
        except ParserError as e:
            return f"err parser {e.token.type.name} {e.token.line} {e.token.column} {modeldump.hints(e.hints)}"
        except Exception as e:  # noqa: BLE001
            return f"err py {type(e).__name__}"
        priv = FM.__dict__
        out = []

        def stage(name, fn):
            try:
                fn()
                out.append(f"{name}={show_pieces(ts)}")
                return True
            except Exception as e:  # noqa: BLE001
                out.append(f"{name}=ERR py {type(e).__name__}")
                return False

        ts = FM.Formatter(sty).visit(ast)
        out.append(f"emit={show_pieces(ts)}")
        ok = stage("remove", lambda: FM.remove_separators(ts) if sty.REMOVE_UNNECESSARY_CHARS else None)
        ok = ok and stage("brackets", lambda: FM.indent_brackets(ts, sty) if sty.LINE_WIDTH > 0 else None)
        ok = ok and stage("spacing", lambda: FM.add_spacing(ts, sty) if sty.BLOCK_SPACER > 0 else None)
        if ok:
            ts[0:0] = [f"--{sty.COMMENT_SEP}tumfl", FM.Separators.Newline]
            (fm_private("__remove_orphaned_tokens") or _py_remove_orphaned)(ts)
            out.append(f"orphans={show_pieces(ts)}")
            ok = stage("resolve", lambda: FM.resolve_tokens(ts, sty))
            ok = ok and stage("indent", lambda: FM.indent(ts, sty.INDENTATION))
            if ok:
                try:
                    out.append("text=" + hx(with_watchdog(5, tumfl.format, tumfl.parse(src), sty)))
                except Exception as e:  # noqa: BLE001
                    out.append(f"text=ERR py {type(e).__name__}")
        return "ok " + " | ".join(out)


def t2_format(ctx: fw.Ctx, cases: list[tuple[str, Any]], name: str = "T2:format") -> None:
    """Correspondence: the Lean model of Formatter.visit and of every layout pass against the real code, stage by stage."""
    st = next((s for s in ctx.streams if s.name == name + " correspondence"), None) or ctx.stream(name + " correspondence")
    cases = [(s, sd) for s, sd in cases if not has_surrogate_escape(s)]
    stys = [FormattingStyle if sd is None else (MinifiedStyle if sd == "min" else mkstyle(sd)) for _, sd in cases]
    answers = drive([("mformat", hx(s), *style_args(sty)) for (s, _), sty in zip(cases, stys)])
    for (src, sd), sty, ans in zip(cases, stys, answers):
        st.record({"kind": "t2-format", "source": src[:200], "style": sd}, key=src + json.dumps(sd, sort_keys=True, default=str))
        try:
            mine = with_watchdog(8, py_format_stages, src, sty)
        except Timeout:
            mine = "timeout"
        if ans.startswith("err py") and mine.startswith("err py"):
            continue
        if ans != mine:
            a, b = ans.split(" | "), mine.split(" | ")
            first = next((i for i in range(min(len(a), len(b))) if a[i] != b[i]), min(len(a), len(b)))
            ctx.tie_broken(name, {"source": src[:500], "style": sd, "first_difference_at_stage": (a[first] if first < len(a) else "")[:40],
                                  "model": " | ".join(a[first:first + 1])[:700], "tumfl": " | ".join(b[first:first + 1])[:700]})


# =========================================================================== T2 correspondence at unit level: helper functions of the formatter
def _strs(alpha, n):
    return ["".join(c) for k in range(n + 1) for c in itertools.product(alpha, repeat=k)]


def t2_units(ctx: fw.Ctx, which: list[str], name: str = "T2:units") -> None:
    """Correspondence of single helper functions (model vs formatter.py) on every input up to a length over a small alphabet chosen
    around the decisions the helper takes.  Cheap, exhaustive in its range, and it localises a difference to one function."""
    st = ctx.stream(name + " correspondence (helper functions, exhaustive small inputs)")
    st.exhaustive = True
    priv = FM.__dict__
    q = ctx.quick
    reqs: list[tuple[tuple, Any]] = []

    def call(fn, *a):
        try:
            with quiet():
                return fn(*a)
        except TypeError as e:
            if "positional argument" in str(e) or "keyword argument" in str(e) or "required argument" in str(e):
                raise   # not callable with the modelled parameters: handled below
            return e
        except Exception as e:  # noqa: BLE001
            return e

    def helper(owner, attr: str):
        """a private helper of formatter.py, looked up tolerantly of leading underscores; None (skipped and noted) when there is none of that name"""
        for cand in (attr, "_" + attr.lstrip("_"), attr.lstrip("_"), "__" + attr.lstrip("_"), f"_Formatter__{attr.lstrip('_')}"):
            if hasattr(owner, cand):
                return getattr(owner, cand)
        st.notes[f"skipped {attr} (no such function)"] = True
        return None

    h_find, h_sep, h_ident = helper(FM.Formatter, "_find_level"), helper(FM, "sep_required"), helper(FM, "_string_ident")
    h_comment, h_string = helper(FM.Formatter, "_format_comment"), helper(FM.Formatter, "visit_String")
    if "findlevel" in which and h_find is not None:
        for v in _strs(["[", "]", "=", "a"], 7 if q else 9):
            reqs.append((("munit", "findlevel", hx(v)), lambda v=v: f"ok {h_find(v)}"))
    if "sep" in which and h_sep is not None:
        toks = _strs(["a", "1", ".", "-", "[", "=", "~", "<", "_", "e", "/", ":", "\"", "]"], 2)[1:]
        toks += ["..", "...", "0x1", "1.", ".5", "[[", "[=[", "[[x]]", "--", "and", "not", "1e", "==", "~=", "<=", ">>", "//", "::"]
        for a in [""] + toks:
            for b in [""] + toks:
                def f(a=a, b=b):
                    r = call(h_sep, a, b)
                    return f"err py {type(r).__name__} formatter.sep_required" if isinstance(r, Exception) else f"ok {str(bool(r)).lower()}"
                reqs.append((("munit", "sep", hx(a), hx(b)), f))
    if "wrap" in which:
        vals = _strs(["a", " ", "\\", "u", "{", "}", "1", "x", "z", ".", "\""], 3 if q else 5)
        vals += ['"' + "ab " * k + "\\u{" + "1" * j + "}" + " c" * m + '"' for k in range(4) for j in range(5) for m in range(3)]
        vals += ["a" * k + "\\" + d + "b" for k in range(3) for d in ("1", "12", "123", "1234", "x41", "xg", "n", "z", "u", "u{", "u{}", "\\")]
        for v in vals:
            f_esc, f_nl = fm_private("__escape_positions"), fm_private("__get_newline_pos")
            if f_esc is not None:
                reqs.append((("munit", "escpos", hx(v)), lambda v=v, f_esc=f_esc: "ok " + " ".join(map(str, sorted(f_esc(v))))))
            else:
                st.notes["skipped __escape_positions (no such function)"] = True
            for m in range(-1, len(v) + 2):
                if f_nl is not None:
                    reqs.append((("munit", "newlinepos", hx(v), str(m)), lambda v=v, m=m, f_nl=f_nl: f"ok {f_nl(v, m)}"))
                else:
                    st.notes["skipped __get_newline_pos (no such function)"] = True
        r = ctx.rng("units-wrap")
        stys = [FormattingStyle, MinifiedStyle] + [mkstyle(dict(LINE_WIDTH=w, INDENTATION=i)) for w in (1, 5, 8, 13) for i in ("\t", "  ", "")]
        pool = ["a", "b", " ", " ", "\\n", "\\u{e9}", "\\u{1f600}", "\\x00", "\\\\", "\\\"", ".", "1", "\\12", "\\z", "{", "}"]
        for _ in range(ctx.n(1500, 30000)):
            body = "".join(r.choice(pool) for _ in range(r.choice([0, 1, 3, 8, 20, 60, 150])))
            v = '"' + body + '"'
            sty = r.choice(stys)
            ind = r.choice([0, 0, 1, 2, 5, 40])

            if h_ident is None:
                continue

            def f(v=v, ind=ind, sty=sty):
                res = call(h_ident, v, ind, sty)
                return f"err py {type(res).__name__} formatter._string_ident" if isinstance(res, Exception) else "ok " + show_pieces(res)
            reqs.append((("munit", "stringident", hx(v), str(ind), *style_args(sty)), f))
    if "comment" in which and h_comment is not None:
        stys = [FormattingStyle, MinifiedStyle, mkstyle(dict(COMMENT_SEP="")), mkstyle(dict(COMMENT_SEP="  "))]
        for v in _strs(["[", "]", "=", "a", "\n", " ", "-"], 4 if q else 6):
            for sty in stys:
                reqs.append((("munit", "comment", hx(v), *style_args(sty)), lambda v=v, sty=sty: "ok " + show_pieces(h_comment(FM.Formatter(sty), v))))
    if "string" in which:
        stys = [FormattingStyle, MinifiedStyle, mkstyle(dict(USE_SINGLE_QUOTE=True, NEWLINE_LIMIT=0)), mkstyle(dict(NEWLINE_LIMIT=2))]
        vals = _strs(["a", " ", "\n", "\"", "'", "\\", "]", "[", "=", "é", "\x00", "\t"], 3 if q else 4)
        vals += [v for v in bracket_values(False)]
        for v in vals:
            for sty in stys:
                reqs.append((("munit", "string", hx(v), *style_args(sty)),
                             lambda v=v, sty=sty: "ok " + show_pieces(FM.Formatter(sty).visit_String(A.String(T(TokenType.STRING, v), v)))))
    answers = drive([r_ for r_, _ in reqs])
    # A private helper that cannot be CALLED the way the model's counterpart is (other parameters after a refactoring) is not a difference in
    # behaviour: that unit is skipped and noted, and the whole-format correspondence and the oracles have to carry the property.  A helper that
    # raises on SOME inputs only is a difference.
    mines: list[str] = []
    calls: dict[str, int] = {}
    uncallable: dict[str, int] = {}
    for (req, fn), ans in zip(reqs, answers):
        calls[req[1]] = calls.get(req[1], 0) + 1
        try:
            mines.append(fn())
        except TypeError as e:
            msg = str(e)
            if "positional argument" in msg or "keyword argument" in msg or "required argument" in msg:
                uncallable[req[1]] = uncallable.get(req[1], 0) + 1
            mines.append(f"err py TypeError: {e}"[:200])
        except Exception as e:  # noqa: BLE001
            mines.append(f"err py {type(e).__name__}: {e}"[:200])
    skipped = {op for op, n in uncallable.items() if n == calls[op]}
    for op in skipped:
        st.notes[f"skipped {op} (the helper no longer takes the modelled parameters)"] = True
    for (req, fn), ans, mine in zip(reqs, answers, mines):
        if req[1] in skipped:
            continue
        st.record({"kind": "t2-unit", "op": req[1]}, key=repr(req))
        st.notes[req[1]] = st.notes.get(req[1], 0) + 1
        if ans != mine:
            ctx.tie_broken(name, {"unit": req[1], "args": [unhx(x) if i < 1 or req[1] == "sep" else x for i, x in enumerate(req[2:])][:3],
                                  "model": ans[:500], "tumfl": mine[:500]})
            st.notes["differences"] = st.notes.get("differences", 0) + 1
            if st.notes["differences"] > 20:
                break


# =========================================================================== T2 correspondence of the layout passes on ARBITRARY piece lists
_SEPBYNAME = {v: k for k, v in _SEPNAME.items()}


def _enc_pieces(ps) -> str:
    return show_pieces(ps) if ps else "-"


def t2_passes(ctx: fw.Ctx, name: str = "T2:passes") -> None:
    """Every layout pass, alone, on piece lists the emitter never produces as well (empty strings, doubled and dangling separators, unbalanced brackets):
    exhaustive up to length 3 over a vocabulary of 20 pieces, random longer lists, and mutated emitter outputs.  The theorems about the passes are stated
    for arbitrary lists; this ties the models on them."""
    st = ctx.stream(name + " correspondence (each layout pass on arbitrary piece lists)")
    r = ctx.rng("t2passes")
    S = FM.Separators
    vocab = ["a", "(", ")", "{", "}", "[", "1", "-", "..", "=", '"s"', "", "--c", "do"] + [S.Statement, S.Newline, S.Argument, S.Space, S.Dot, S.Indent, S.DeIndent, S.Block]
    lists = [list(c) for k in range(0, 3 if ctx.quick else 4) for c in itertools.product(vocab, repeat=k)]
    long_vocab = vocab + ["function", "end", "x", ",", "]", "'a long string literal with several words inside it'", '"q\\n"', "[[l]]", "0x1p4", "::", ":", "then", "return"]
    for _ in range(ctx.n(1500, 30000)):
        lists.append([r.choice(long_vocab) for _ in range(r.randint(3, 14))])
    # mutated emitter outputs
    for src in random_programs(ctx, "t2passes-progs", ctx.n(40, 600)):
        stt, ast = tparse(src)
        if stt != "ok":
            continue
        with quiet():
            ts = FM.Formatter(r.choice([FormattingStyle, MinifiedStyle])).visit(ast)
        lists.append(list(ts))
        for _ in range(3):
            m = list(ts)
            for _ in range(r.randint(1, 3)):
                if not m:
                    break
                i = r.randrange(len(m))
                k = r.random()
                if k < 0.4:
                    del m[i]
                elif k < 0.7:
                    m.insert(i, r.choice(vocab))
                else:
                    m[i] = r.choice(vocab)
            lists.append(m)
    stys = [FormattingStyle, MinifiedStyle, mkstyle(dict(LINE_WIDTH=8, INDENTATION="  ", BLOCK_SPACER=1)), mkstyle(dict(STATEMENT_SEPARATOR=";", ARGUMENT_SEPARATOR=",", LINE_WIDTH=20))]
    priv = FM.__dict__
    passes = {
        "remove": lambda ts, sty: FM.remove_separators(ts),
        "brackets": lambda ts, sty: FM.indent_brackets(ts, sty),
        "spacing": lambda ts, sty: FM.add_spacing(ts, sty),
        "orphans": lambda ts, sty: (fm_private("__remove_orphaned_tokens") or _py_remove_orphaned)(ts),
        "resolve": lambda ts, sty: FM.resolve_tokens(ts, sty),
        "indent": lambda ts, sty: FM.indent(ts, sty.INDENTATION),
    }
    def balanced(ps) -> bool:
        stack = []
        for p_ in ps:
            if p_ in ("(", "[", "{"):
                stack.append(p_)
            elif p_ in (")", "]", "}"):
                if not stack or stack.pop() != {")": "(", "]": "[", "}": "{"}[p_]:
                    return False
        return not stack

    reqs = []
    for i, ps in enumerate(lists):
        sty = stys[i % len(stys)]
        for pname in passes:
            if pname == "brackets" and not balanced(ps):
                # indent_brackets walks back from a closing bracket to its opener: on unbalanced lists Python's negative indices wrap around, which the
                # model does not imitate (it reports an error); the emitter only produces balanced lists (Theory: the discipline `Disc`)
                continue
            reqs.append((pname, ps, sty))
        reqs.append(("join", ps, sty))
    answers = drive([("mpass", pname, _enc_pieces(ps), *style_args(sty)) for pname, ps, sty in reqs])
    diffs = 0
    for (pname, ps, sty), ans in zip(reqs, answers):
        st.record({"kind": "t2-pass", "pass": pname}, key=pname + "|" + _enc_pieces(ps) + "|" + str(stys.index(sty)))
        st.notes[pname] = st.notes.get(pname, 0) + 1
        work = list(ps)
        try:
            with quiet():
                if pname == "join":
                    mine = "ok " + hx(FM.join_tokens(work))
                else:
                    with_watchdog(3, passes[pname], work, sty)
                    mine = "ok " + show_pieces(work)
        except Timeout:
            mine = "timeout"
        except Exception as e:  # noqa: BLE001
            mine = f"err py {type(e).__name__}"
        same = ans == mine or (ans.startswith("err py") and mine.startswith("err py") and ans.split()[2] == mine.split()[2])
        if not same:
            diffs += 1
            ctx.tie_broken(name, {"pass": pname, "pieces": _enc_pieces(ps)[:300], "style": stys.index(sty), "model": ans[:400], "tumfl": mine[:400]})
            if diffs > 25:
                break
    st.notes["lists"] = len(lists)


# =========================================================================== Lean obligations per property (overrides the placeholders above)
ALL_T1 = ["Brackets", "FmtTables", "LexTables", "Ladder"]
LEAN_OBLIGATIONS: dict[str, dict] = {
    "C06": dict(
        modules=["Tumfl.Props.C06", "Tumfl.Props.Final"],
        obligations=["Tumfl.Props.C06_quoted", "Tumfl.Props.C06_long", "Tumfl.Props.C06_forms", "Tumfl.Props.C06_wrapped", "Tumfl.Props.C08_format_tree", "Tumfl.Inst.escTable_ok"],
        extractors=["FmtTables", "Brackets"],
        tie_names=["T1:FmtTables (ESCAPE_CHARACTERS re-extracted; EscTableOK re-decided)", "T2:format (visit_String and every layout pass, stage by stage)",
                   "T2:units (_find_level, __escape_positions, __get_newline_pos, _string_ident, visit_String: every input up to a length over small alphabets)"],
        partial_hypotheses=["both written forms and the `\\z` wrapping are proved to read back to the value with the reference readers; that the surrounding text does not "
                            "interfere is C02_boundary (a literal is read whatever follows it); in context: C08_format_tree - for ANY printable tree (built by hand) the formatted text "
                            "is a valid chunk whose reference tree is the tree itself, so every String node reads back as its value in whatever position it stands"],
    ),
}
LEAN_OBLIGATIONS.update({
    "C03": dict(
        modules=["Tumfl.Props.C03", "Tumfl.Props.C11"],
        obligations=["Tumfl.Props.C03_ladder_is_climb", "Tumfl.Props.C03_parseExp", "Tumfl.Inst.model_ladder_ok", "Tumfl.Theory.climb_complete_top"],
        extractors=["Ladder", "LexTables"],
        tie_names=["T1:Ladder (level table, helper kinds, from_token maps read from parser.py)", "T1:LexTables", "T2:parse (whole AST with positions, comments, hint stack)"],
        partial_hypotheses=["statements, suffix chains, table constructors and token values: no simulation theorem yet, covered by T2:parse and the oracle streams",
                            "K1 (truncating parentheses) is a known finding: C03 is false there"],
    ),
    "C10": dict(
        modules=["Tumfl.Props.C03"],
        obligations=["Tumfl.Props.C03_ladder_is_climb", "Tumfl.Inst.model_ladder_ok"],
        extractors=["Ladder", "LexTables"],
        tie_names=["T1:Ladder", "T1:LexTables", "T2:parse"],
        partial_hypotheses=["only the expression layer has the soundness direction proved (ladder accepts => Lua's algorithm accepts); chunk end, table separators, "
                            "assignment targets, numerals and white space are covered by T2:parse and the mutation oracle"],
    ),
    "C05": dict(
        modules=["Tumfl.Props.C05"],
        obligations=["Tumfl.Props.C05_model_reads", "Tumfl.Props.C05_reference_reads", "Tumfl.Props.C05_same_value", "Tumfl.Props.C05_rejects_cleanly",
                     "Tumfl.Props.C05_terminates", "Tumfl.Inst.escapeCodes_facts", "Tumfl.Inst.escChar_in_table"],
        extractors=["LexTables"],
        tie_names=["T1:LexTables (ESCAPE_CODES, digit sets, white space re-extracted; table facts re-decided)", "T2:lex (tokens, values, positions, comments, error positions)"],
        partial_hypotheses=["long brackets and comment skipping: modelled and T2-tied, no theorem yet"],
    ),
    "C07": dict(
        modules=["Tumfl.Props.C07"],
        obligations=["Tumfl.Props.C07_partial", "Tumfl.Props.C07_canonical"],
        extractors=["LexTables", "FmtTables"],
        tie_names=["T1:LexTables (digit sets)", "T2:lex", "T2:format (Number.__str__ through visit_Number)"],
        partial_hypotheses=["K2 (5.) and K3 (0x.8) are known findings: the theorem excludes exactly these two shapes and their negation is proved by evaluation",
                            "the fusion clause (numeral before `..`/name/keyword) is covered by the C02 streams, no theorem yet"],
    ),
    "C16": dict(
        modules=["Tumfl.Props.C16"],
        obligations=["Tumfl.Props.C16_positions", "Tumfl.Props.C16_reference_position", "Tumfl.Props.C16_eof", "Tumfl.Props.C16_advance"],
        extractors=["LexTables"],
        tie_names=["T1:LexTables", "T2:lex (positions of every token)", "T2:parse (token of every ParserError)"],
        partial_hypotheses=["that the token attached to a ParserError is one of the lexer's tokens is by construction of the model (errors carry `cur`); no separate theorem"],
    ),
    "C19": dict(
        modules=["Tumfl.Props.C19"],
        obligations=["Tumfl.Props.C19_ok", "Tumfl.Props.C19_chunk", "Tumfl.Props.C19_rejected", "Tumfl.Props.C19_lexer_monotone", "Tumfl.Props.C09_no_index_error"],
        extractors=["Ladder", "LexTables"],
        tie_names=["T1:Ladder", "T2:parse (final hint stack on success, hint chain of every ParserError)"],
        partial_hypotheses=["both cases are proved on the model (accepted: chain empty; rejected: positions non-decreasing, none after the offending token); "
                            "positions are (line, column) pairs of the model tokens, tied to the text by C16_positions and to parser.py by T2:parse"],
    ),
    "C09": dict(
        modules=["Tumfl.Props.C09", "Tumfl.Props.C09Pos", "Tumfl.Props.C19", "Tumfl.Props.C05"],
        obligations=["Tumfl.Props.C09_lexer_total", "Tumfl.Props.C09_lexer_terminates", "Tumfl.Props.C09_lexer_progress", "Tumfl.Props.C09_parser_errors",
                     "Tumfl.Props.C09_no_assertion", "Tumfl.Props.C09_parse_total", "Tumfl.Props.C09_parser_terminates", "Tumfl.Props.C09_fuel_irrelevant",
                     "Tumfl.Props.C09_parse_total_final", "Tumfl.Props.C09_error_positions", "Tumfl.Props.C09_lexer_error_position",
                     "Tumfl.Props.C09_no_index_error", "Tumfl.Props.C05_rejects_cleanly", "Tumfl.Props.C05_terminates"],
        extractors=["Ladder", "LexTables"],
        tie_names=["T1:Ladder", "T1:LexTables", "T2:parse (error kind, token, hints on every malformed input)"],
        partial_hypotheses=["proved for any text: lexer and parser terminate (the model's recursion fuel is never exhausted: potential argument over all 21 parse functions) "
                            "and parse returns a tree or raises LexerError/ParserError - never IndexError, never AssertionError - whose position lies inside the text "
                            "(C09_error_positions); Python's recursion limit (nesting beyond the quantifier's bound) is outside the model"],

    ),
    "C13": dict(
        modules=["Tumfl.Props.C13Text", "Tumfl.Props.C13", "Tumfl.Props.C08", "Tumfl.Props.C13Source"],
        obligations=["Tumfl.Props.C13_text", "Tumfl.Props.C13_text_off", "Tumfl.Props.C13_parsed", "Tumfl.Props.C13_emit_on", "Tumfl.Props.C13_emit_off",
                     "Tumfl.Props.C13_placement", "Tumfl.Props.C08_comment_wf", "Tumfl.Props.C08_comment_text",
                     "Tumfl.Props.C13_source", "Tumfl.Props.C13_source_cur", "Tumfl.Props.C13_source_list", "Tumfl.Props.C13_source_text", "Tumfl.Props.C13_source_examples",
                     "Tumfl.Props.C13_local_function_order"],
        extractors=["FmtTables", "Brackets"],
        tie_names=["T2:format (comment pieces through every stage to the final text)", "T2:parse (comment lists on statement tokens)"],
        partial_hypotheses=["proved on the models: parse, then format with comments on under any documented style: the comments the reference lexer finds in the final text are the "
                            "header and then every statement's leading comments, in statement order, each once, spelled by _format_comment (C13_text; C08_comment_text: that spelling "
                            "reads back as the stripped text); with comments off only the header (C13_text_off). Hypothesis: K5 excluded (no blank directly before an inner line break of a "
                            "comment). That a statement's comment list is the list of comments preceding it in the source: C13_source (the node carries the token current when the statement began, for every statement form; "
                            "`local function` carries the `function` token with the comments in front of `local` appended behind those between `local` and `function`) + C20_delivery; `before the same statement`: "
                            "C13_placement at piece level"],

    ),
    "C14": dict(
        modules=["Tumfl.Props.C14"],
        obligations=["Tumfl.Props.C14_noninterference", "Tumfl.Inst.no_shared_writes", "Tumfl.Inst.format_leaves_arguments"],
        extractors=["SharedState"],
        tie_names=["T1:SharedState (static scan of the whole package for shared mutable objects and reachable writes)"],
        partial_hypotheses=["the scan does not see setattr/globals()/C-level caches; thread interleavings below the granularity of whole shared accesses are only sampled"],
    ),
    "C17": dict(
        modules=["Tumfl.Props.C17", "Tumfl.Props.C17Replace"],
        obligations=["Tumfl.Props.C17_links", "Tumfl.Props.C17_walk", "Tumfl.Props.C17_replace", "Tumfl.Props.C17_replace_exact", "Tumfl.Props.C17_replace_elsewhere",
                     "Tumfl.Props.C17_replace_ancestors", "Tumfl.Props.C17_after_edits", "Tumfl.Props.C17_after_edits_exact", "Tumfl.Inst.schema_replace", "Tumfl.Inst.schema_links", "Tumfl.Inst.schema_walk", "Tumfl.Inst.schema_exercised", "Tumfl.Inst.schema_no_mixed"],
        extractors=["Schema"],
        tie_names=["T1:Schema (per class: structural slots by reflection, attributes yielded by ASTNode.__dir, linked and walked child slots, on a sample covering all 34 classes)",
                   "T2:resolve (resolved trees)"],
        partial_hypotheses=["replace_child: per class and slot on the extracted schema (measured on the real method) and, on the generic tree model, C17_replace_exact / _elsewhere / _ancestors (exactly the given "
                            "occurrence, nothing else); after any sequence of replacements by well-typed subtrees the tree is a proper tree again (C17_after_edits); that the resolver's edits ARE such replacements "
                            "(it also re-links by hand): oracle streams on resolved trees"],
    ),
    "C18": dict(
        modules=["Tumfl.Props.C17"],
        obligations=["Tumfl.Props.C18_eq", "Tumfl.Inst.schema_eq", "Tumfl.Inst.schema_exercised", "Tumfl.Inst.schema_no_mixed"],
        extractors=["Schema"],
        tie_names=["T1:Schema"],
        partial_hypotheses=["Token.__eq__ and AttributedName.__eq__ are part of the oracle stream, not of the generic model (atoms are compared as rendered values)"],
    ),
    "C04": dict(
        modules=["Tumfl.Props.C04", "Tumfl.Props.Final", "Tumfl.Props.C04Faithful"],
        obligations=["Tumfl.Props.C04_lookup", "Tumfl.Props.C04_lookup_none", "Tumfl.Props.C04_no_require", "Tumfl.Props.C12_untouched", "Tumfl.Props.C12_errors",
                     "Tumfl.Props.C04_terminates", "Tumfl.Props.C04_outcome_unique", "Tumfl.Props.C04_formats_valid", "Tumfl.Props.C04_formats_valid_final",
                     "Tumfl.Props.C04_expr_cycle_diverges",
                     "Tumfl.Props.C04_faithful", "Tumfl.Props.C04_faithful_dedup", "Tumfl.Props.C04_spec_deterministic", "Tumfl.Props.C04_faithful_unique",
                     "Tumfl.Props.C04_spec_forget", "Tumfl.Props.C04_dedup", "Tumfl.Props.C04_faithful_example", "Tumfl.Props.C04_spec_strict", "Tumfl.Props.C12_nothing_left"],
        extractors=["Ladder", "LexTables", "FmtTables", "Brackets"],
        tie_names=["T2:resolve (model resolver on the abstract file system vs the real resolver on a real directory tree: whole resulting AST or the error)",
                   "T2:format (formatting of the result goes through the same model)"],
        partial_hypotheses=["proved on the model: lookup order, no require remains, termination for every tree whose expression-level require edges are acyclic (explicit depth bound), "
                            "and that the emitted pieces of the result read as a valid chunk with the spliced tree (C04_formats_valid; K4 and empty spliced files under KEEP_SEMICOLON "
                            "excluded); faithfulness of the splice: C04_faithful / C04_faithful_dedup - the result is related to the main file's tree by a declarative inlining relation "
                            "(congruence everywhere except at literal requires; statement -> the file's chunk or an empty statement exactly according to the table of files inlined so far; "
                            "expression -> immediately invoked function receiving the module name), and that relation is functional (C04_faithful_unique); model vs code: T2:resolve + the inlining oracle",
                            "K4 (statement-level require of a file with a top-level return) is a known finding"],
    ),
    "C12": dict(
        modules=["Tumfl.Props.C04", "Tumfl.Props.C04Faithful"],
        obligations=["Tumfl.Props.C12_wrong_args_stmt", "Tumfl.Props.C12_wrong_args_expr", "Tumfl.Props.C12_missing_stmt", "Tumfl.Props.C12_missing_expr",
                     "Tumfl.Props.C12_untouched", "Tumfl.Props.C12_errors", "Tumfl.Props.C04_lookup_none", "Tumfl.Props.C12_stmt_cycles_terminate",
                     "Tumfl.Props.C12_cycle_example", "Tumfl.Props.C04_terminates",
                     "Tumfl.Props.C12_nothing_left", "Tumfl.Props.C12_ok_no_bad_require", "Tumfl.Props.C04_faithful",
                     "Tumfl.Props.C12_error_designates", "Tumfl.Props.C12_tree_is_files",
                     "Tumfl.Props.C12_complete", "Tumfl.Props.C12_offending_never_ok", "Tumfl.Props.C12_dependency_error_stable", "Tumfl.Props.C12_complete_parses",
                     "Tumfl.Props.C12_complete_example"],
        extractors=["Ladder", "LexTables"],
        tie_names=["T2:resolve (faulty trees: exception kind and token of the offending call)"],
        partial_hypotheses=["the main clause, proved on the model: if resolution succeeds no file of the dependency tree contains an uninlinable require call (C12_complete) - one such call anywhere and "
                            "every recursion budget ends in an error (C12_offending_never_ok); statement-level cycles terminate: proved (C12_stmt_cycles_terminate); nothing is silently left behind: proved (C12_nothing_left - no call of the bare name require remains in a successfully resolved tree, whatever its arguments); the error is raised FOR THAT CALL: proved (C12_error_designates - the token of every InvalidDependencyError is the token of a really uninlinable bare-name require call in a file of the dependency tree); that it is the FIRST such call in visit order: T2 and oracle streams; is_file on a directory: the abstract "
                            "file system has files and directories as disjoint sets, tied by T2 on real trees with directory traps"],
    ),
    "C20": dict(
        modules=["Tumfl.Props.C16"],
        obligations=["Tumfl.Props.C16_positions"],
        extractors=["LexTables"],
        tie_names=["T1:LexTables", "T2:lex (comment lists of every token, end-of-file token included)"],
        partial_hypotheses=["no theorem about comment attachment yet (the position theorem is the only lexer-loop theorem); covered by T2:lex and the oracle stream"],
    ),
})
LAYOUT_OBL = ["Tumfl.Props.C08_remove_separators", "Tumfl.Props.C08_add_spacing", "Tumfl.Props.C08_remove_orphaned", "Tumfl.Props.C08_resolve_tokens",
              "Tumfl.Props.C08_join", "Tumfl.Props.C08_indent_brackets", "Tumfl.Props.C08_string_wrap", "Tumfl.Props.C08_wrap_progress", "Tumfl.Props.C02_boundary",
              "Tumfl.Props.C08_comment_wf", "Tumfl.Props.C08_comment_text"]
PIECE_OBL = ["Tumfl.Props.C01_format_parse", "Tumfl.Props.C08_format_total", "Tumfl.Props.C08_format_total_parsed", "Tumfl.Props.C08_format_tree", "Tumfl.Props.C01_default_style", "Tumfl.Props.C02_minified_style", "Tumfl.Inst.defaultStyle_repr_ok", "Tumfl.Inst.minifiedStyle_repr_ok", "Tumfl.Props.C01_same_program", "Tumfl.Props.C02_same_program_final", "Tumfl.Props.C01_same_program_emit", "Tumfl.Props.EmitI_eq_emit_parsed", "Tumfl.Props.C02_same_program", "Tumfl.Props.C02_same_program_nocomments", "Tumfl.Props.Format_lex", "Tumfl.Props.Format_lex_exact", "Tumfl.Props.Format_comments",
             "Tumfl.Props.Parse_numsCanon", "Tumfl.Props.Format_cex_semicolon", "Tumfl.Props.Format_cex_trailing_comma", "Tumfl.Props.Same_program", "Tumfl.Props.Same_tokens", "Tumfl.Props.Same_normS_eq", "Tumfl.Props.Same_normS_strength", "Tumfl.Props.Parse_printable", "Tumfl.Props.C10_parse_sound", "Tumfl.Props.C03_parse_complete", "Tumfl.Props.Print_sim", "Tumfl.Props.Print_sim_parseToks", "Tumfl.Props.Print_readings", "Tumfl.Props.C11_roundtrip", "Tumfl.Props.C11_emit_is_par", "Tumfl.Props.C11_emit_roundtrip", "Tumfl.Props.C11_minified", "Tumfl.Inst.brackets_sound_all",
             "Tumfl.Props.C06_quoted", "Tumfl.Props.C06_long", "Tumfl.Props.C06_forms", "Tumfl.Props.C06_wrapped", "Tumfl.Props.C07_partial", "Tumfl.Props.C13_emit_on"]
FORMAT_MODULES = ["Tumfl.Props.Final", "Tumfl.Props.Format", "Tumfl.Props.Same", "Tumfl.Props.Parse", "Tumfl.Props.Print", "Tumfl.Props.C08", "Tumfl.Props.C11", "Tumfl.Props.C06", "Tumfl.Props.C07", "Tumfl.Props.C13"]
FORMAT_PARTIAL = ["proved end to end on the models, for EVERY style with separators of the documented kinds (any line width, limits, spacer, Boolean switches): if parse accepts a source "
                  "without carriage returns and format returns a text, that text is a valid Lua chunk whose reference tree equals the source's after normS - parentheses erased, empty "
                  "statements dropped, numerals canonical (C01_same_program; the only other hypothesis: comments off, or no comment with a blank directly before an inner line break). "
                  "The statement is about the models (parseText, formatI); their agreement with parser.py / formatter.py is the T2 correspondence (every stage, every run), not a proof",
                  "format never raises and always returns, for every style record and every printable tree (C08_format_total) - so C01_format_parse has no hypothesis about format",
                  "not covered: everything normS erases - K1 (truncating parentheses), K2/K3 (numeral kinds) are known findings; K5 for comments"]
for _p, _extra in (("C01", []), ("C02", []), ("C08", []), ("C15", [])):
    LEAN_OBLIGATIONS[_p] = dict(
        modules=FORMAT_MODULES,
        obligations=LAYOUT_OBL + PIECE_OBL,
        extractors=ALL_T1,
        tie_names=["T1:Brackets", "T1:FmtTables", "T1:LexTables", "T1:Ladder", "T2:format (emit and every layout pass, stage by stage, and the final text)",
                   "T2:units (_find_level, sep_required, __escape_positions, __get_newline_pos, _string_ident, _format_comment, visit_String: every input up to a length over small alphabets)",
                   "T2:passes (remove_separators, indent_brackets, add_spacing, __remove_orphaned_tokens, resolve_tokens, indent, join_tokens, each alone on arbitrary piece lists: "
                   "exhaustive up to length 2/3 over 22 pieces, random longer lists, mutated emitter outputs)"],
        partial_hypotheses=FORMAT_PARTIAL + (["idempotence itself (C15) has no theorem: byte comparison of two minify passes in the oracle stream"] if _p == "C15" else []),
    )
LEAN_OBLIGATIONS["C11"] = dict(
    modules=["Tumfl.Props.C11"],
    obligations=["Tumfl.Props.C11_roundtrip", "Tumfl.Props.C11_precOK", "Tumfl.Props.C11_emit_is_par", "Tumfl.Props.C11_emit_roundtrip", "Tumfl.Props.C11_minified",
                 "Tumfl.Inst.brackets_sound_all"],
    extractors=["Brackets", "FmtTables"],
    tie_names=["T1:Brackets (bracket table re-extracted through visit_BinOp/visit_UnOp, 9568 entries, self-tested)", "T2:format"],
    partial_hypotheses=["leaves are names (not arbitrary atoms such as calls or literals); re-lexing of the final text at character level is C02_boundary, not composed here"],
)
LEAN_OBLIGATIONS["C20"] = dict(
    modules=["Tumfl.Props.C20", "Tumfl.Props.C16"],
    obligations=["Tumfl.Props.C20_delivery", "Tumfl.Props.C20_all_comments", "Tumfl.Props.C05_comments", "Tumfl.Props.C05_long_brackets", "Tumfl.Props.C16_positions"],
    extractors=["LexTables"],
    tie_names=["T1:LexTables", "T2:lex (comment lists of every token, end-of-file token included)"],
    partial_hypotheses=["`no comment text ever becomes a token and no token is swallowed by a comment` follows from the segmentation theorem together with the token-boundary "
                        "theorems (Theory/Boundary*, C05, C07), which are not composed into one statement"],
)
LEAN_OBLIGATIONS["C05"]["modules"] = ["Tumfl.Props.C05", "Tumfl.Props.C20"]
LEAN_OBLIGATIONS["C05"]["obligations"] = LEAN_OBLIGATIONS["C05"]["obligations"] + ["Tumfl.Props.C05_long_brackets", "Tumfl.Props.C05_comments"]
LEAN_OBLIGATIONS["C05"]["partial_hypotheses"] = ["quoted strings, long brackets and comments are each proved; the dispatch in get_next_token that chooses among them is covered by C09_lexer_total and T2:lex"]

for _pid, _obl, _note in [
    ("C05", ["Tumfl.Props.Lex_sound", "Tumfl.Props.Lex_complete", "Tumfl.Props.Lex_cr_counterexample", "Tumfl.Props.Lex_byte_counterexample"],
     "whole-lexer agreement with the reference lexer is proved in both directions (Lex_sound for texts without carriage returns, Lex_complete for in-scope string values)"),
    ("C20", ["Tumfl.Props.Lex_sound", "Tumfl.Props.Lex_complete"],
     "no comment text becomes a token and no token is swallowed: the token sequences of the model lexer and of the reference lexer are related pointwise (Lex_sound / Lex_complete)"),
    ("C10", ["Tumfl.Props.Lex_sound"], "lexical clause (numerals, white space, symbols are Lua's): Lex_sound"),
    ("C03", ["Tumfl.Props.Lex_complete"], "token values are the ones Lua reads: Lex_complete"),
    ("C07", ["Tumfl.Props.Lex_complete", "Tumfl.Props.Lex_sound"], "numerals in context (after any token, before any token) are scanned as the reference scans them: Lex_sound / Lex_complete"),
]:
    _d = LEAN_OBLIGATIONS[_pid]
    _d["modules"] = list(dict.fromkeys(_d["modules"] + ["Tumfl.Props.Lex"]))
    _d["obligations"] = list(dict.fromkeys(_d["obligations"] + _obl))
    _d["partial_hypotheses"] = _d["partial_hypotheses"] + [_note]

for _pid, _obl, _notes in [
    ("C03", ["Tumfl.Props.C03_parse_complete", "Tumfl.Props.C03_accept_iff", "Tumfl.Props.C10_parse_sound", "Tumfl.Props.Accepts_unique", "Tumfl.Props.C03_needs_inScope",
             "Tumfl.Props.Parse_example_sound"],
     ["proved on the model: every valid chunk with in-scope string values is accepted and the tree is the reference tree with its parentheses erased (C03_parse_complete: lexer "
      "bridge + parser simulation + fuel adequacy composed); the clause `parentheses that change meaning are not lost` is NOT covered - it is false (K1); numeral kinds of `5.` and "
      "`0x.8` (K2) are not part of the tree relation"]),
    ("C10", ["Tumfl.Props.C10_parse_sound", "Tumfl.Props.C03_accept_iff", "Tumfl.Props.Accepts_unique", "Tumfl.Props.C10_needs_noCR", "Tumfl.Props.Parse_example_rejects"],
     ["proved on the model: a successful parse of a text without carriage returns implies the reference lexer and parser accept the whole text as one chunk, with the same tree "
      "modulo parentheses (C10_parse_sound); carriage returns are outside the quantifier (C10_needs_noCR shows the hypothesis is needed)"]),
]:
    _d = LEAN_OBLIGATIONS[_pid]
    _d["modules"] = list(dict.fromkeys(_d["modules"] + ["Tumfl.Props.Parse"]))
    _d["obligations"] = list(dict.fromkeys(_d["obligations"] + _obl))
    _d["partial_hypotheses"] = _notes
for _pid, _ov in LEAN_OBLIGATIONS.items():
    REGISTRY[_pid].update(_ov)
# C15: the idempotence theorem (Props/C15.lean)
REGISTRY["C15"]["modules"] = list(dict.fromkeys(["Tumfl.Props.C15"] + REGISTRY["C15"]["modules"]))
REGISTRY["C15"]["obligations"] = list(dict.fromkeys(["Tumfl.Props.C15_idempotent_total", "Tumfl.Props.C15_idempotent", "Tumfl.Props.C15_idempotent_general", "Tumfl.Inst.minifiedStyle_repr_ok"] + REGISTRY["C15"]["obligations"]))
REGISTRY["C15"]["partial_hypotheses"] = ["proved on the models: for every CR-free source that parse accepts, minify(parse(minify(parse(src)))) = minify(parse(src)) byte for byte, and the "
                                         "intermediate parse succeeds (C15_idempotent for MinifiedStyle as extracted from formatter.py; C15_idempotent_general for every comment-free, "
                                         "separator-removing style with line width 0). The statement is about the models parseText / formatI; their agreement with the Python code is the "
                                         "T2 correspondence, and the byte comparison of two real minify passes on every program of the streams remains as the failing-input search"]


# =========================================================================== T2 correspondence: model resolver vs tumfl resolver
def py_resolve_canon(tree: dict) -> str:
    root = materialise(tree)
    try:
        with quiet():
            try:
                ast = with_watchdog(10, tumfl.resolve_recursive, root / tree["main"], [root / s for s in tree["search"]])
                return "ok " + modeldump.block(ast)
            except InvalidDependencyError as e:
                return f"err dependency {e.token.line} {e.token.column}"
            except LexerError as e:
                return f"err lexer {e.line} {e.column}"
            except ParserError as e:
                return f"err parser {e.token.type.name} {e.token.line} {e.token.column} {modeldump.hints(e.hints)}"
            except Timeout:
                return "timeout"
            except RecursionError:
                return "err py RecursionError"
            except Exception as e:  # noqa: BLE001
                return f"err py {type(e).__name__}"
    finally:
        shutil.rmtree(root, ignore_errors=True)


def t2_resolve(ctx: fw.Ctx, trees: list[dict], name: str = "T2:resolve") -> None:
    """Correspondence: the Lean model of dependency_resolver.py on the abstract file system against the real resolver on a real directory tree."""
    st = next((s for s in ctx.streams if s.name == name + " correspondence"), None) or ctx.stream(name + " correspondence")

    def enc(p: str) -> str:
        return p if p else "/"

    reqs = []
    for t in trees:
        sp = ";".join(enc(s) for s in t["search"]) if t["search"] else "-"
        dirs = ";".join(t.get("dirs", [])) if t.get("dirs") else "-"
        reqs.append(("mresolve", t["main"], sp, dirs, *[f"{p}={hx(c)}" for p, c in t["files"].items()]))
    answers = drive(reqs)
    for t, ans in zip(trees, answers):
        mine = py_resolve_canon(t)
        st.record({"kind": "t2-resolve", "main": t["main"], "search": t["search"], "files": list(t["files"])}, key=json.dumps(t, sort_keys=True))
        if ans != mine and not (ans.startswith("err py") and mine.startswith("err py")):
            a, b = ans, mine
            i = next((k for k in range(min(len(a), len(b))) if a[k] != b[k]), min(len(a), len(b)))
            ctx.tie_broken(name, {"tree": t, "model": a[max(0, i - 150): i + 250], "tumfl": b[max(0, i - 150): i + 250]})
