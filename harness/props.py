"""The twenty property checks: generators (streams), oracles, known-finding classifiers."""
from __future__ import annotations

import itertools
import json
import random
import signal
import sys
from typing import Any, Callable

from common import drive, hx, quiet
import absast
import framework as fw
import gen

import tumfl
from tumfl import AST as A
from tumfl.formatter import FormattingStyle, MinifiedStyle
from tumfl.Token import Token, TokenType
from tumfl.error import LexerError, ParserError, TumflError

REGISTRY: dict[str, dict] = {}

TRUSTED_COMMON = [
    "Lean 4.33.0 kernel; axioms of every property theorem within {propext, Classical.choice, Quot.sound}",
    "Spec (Tumfl/Spec/*.lean): hand-written from the Lua 5.4 manual and llex.c/lparser.c; accepted all 28 UTF-8 files of /repo/lua-tests; no Lua binary available",
    "harness: generators, abs (tumfl AST -> Spec S-expression), driver glue",
]


# --------------------------------------------------------------------------- helpers
class Timeout(Exception):
    pass


def _alarm(*_a):
    raise Timeout()


def with_watchdog(seconds: int, fn: Callable, *args):
    old = signal.signal(signal.SIGALRM, _alarm)
    signal.alarm(seconds)
    try:
        return fn(*args)
    finally:
        signal.alarm(0)
        signal.signal(signal.SIGALRM, old)


def tparse(src: str):
    """('ok', ast) | ('lexer', e) | ('parser', e) | ('other', e)"""
    with quiet():
        try:
            return "ok", with_watchdog(10, tumfl.parse, src)
        except LexerError as e:
            return "lexer", e
        except ParserError as e:
            return "parser", e
        except Timeout as e:
            return "timeout", e
        except RecursionError as e:
            return "recursion", e
        except Exception as e:  # noqa: BLE001
            return "other", e


def tformat(ast, style=None):
    """('ok', text) | ('timeout', None) | ('other', e)"""
    with quiet():
        try:
            return "ok", with_watchdog(5, tumfl.format, ast, style)
        except Timeout:
            return "timeout", None
        except RecursionError as e:
            return "recursion", e
        except Exception as e:  # noqa: BLE001
            return "other", e


def refparse(srcs: list[str]) -> list[str]:
    return drive([("refparse", hx(s)) for s in srcs])


STYLE_FIELDS = ["STATEMENT_SEPARATOR", "INDENTATION", "ARGUMENT_SEPARATOR", "INCLUDE_COMMENTS", "COMMENT_SEP",
                "USE_SINGLE_QUOTE", "USE_CALL_SHORTHAND", "REMOVE_UNNECESSARY_CHARS", "ADD_ALL_BRACKETS",
                "ADD_CLOSE_BRACKETS", "SPACE_IN_TABLE", "NEWLINE_LIMIT", "LINE_WIDTH", "BLOCK_SPACER",
                "KEEP_SEMICOLON"]


def mkstyle(d: dict, base=FormattingStyle):
    return type("S", (base,), dict(d))


def style_dict(style) -> dict:
    return {k: getattr(style, k) for k in STYLE_FIELDS}


TOK = Token(TokenType.NAME, "x", 1, 1)


def chunk_of_exp(e) -> A.Chunk:
    c = A.Chunk(Token(TokenType.NAME, "x", 1, 1), [A.Assign(Token(TokenType.NAME, "x", 1, 1), [A.Name(TOK, "x")], [e])], None)
    c.parent(None)
    return c


def register(pid: str, **kw) -> None:
    kw.setdefault("trusted_base", TRUSTED_COMMON)
    kw.setdefault("assumptions", [])
    kw.setdefault("tie_names", [])
    kw.setdefault("extractors", [])
    REGISTRY[pid] = kw


def replay(ctx: fw.Ctx, spec: dict, rec: dict) -> int:
    fn = spec.get("replay")
    if not fn:
        print("no replay function for this property")
        return 2
    ok, msg = fn(rec)
    print(msg)
    if ok:
        return 0
    print(f"VIOLATION property={ctx.prop} replay={sys.argv[-1]}")
    return 1


# =========================================================================== C11
BIN = list(A.BinaryOperand)
UN = list(A.UnaryOperand)


def op_tree_random(r: random.Random, n_ops: int):
    """random operator tree with exactly n_ops operators over Name atoms"""
    counter = itertools.count()

    def build(n: int):
        if n == 0:
            return A.Name(TOK, "abcdefgh"[next(counter) % 8])
        if r.random() < 0.25:
            return A.UnOp(TOK, r.choice(UN), build(n - 1))
        k = r.randint(0, n - 1)
        return A.BinOp(TOK, r.choice(BIN), build(k), build(n - 1 - k))

    return build(n_ops)


def c11_trees_small():
    """every (parent, child, side) combination: binary/unary parent x binary/unary child"""
    a, b, c = (A.Name(TOK, n) for n in "abc")
    for p in BIN:
        for ch in BIN:
            yield A.BinOp(TOK, p, A.BinOp(TOK, ch, a, b), c)
            yield A.BinOp(TOK, p, a, A.BinOp(TOK, ch, b, c))
        for u in UN:
            yield A.BinOp(TOK, p, A.UnOp(TOK, u, a), b)
            yield A.BinOp(TOK, p, a, A.UnOp(TOK, u, b))
    for u in UN:
        for ch in BIN:
            yield A.UnOp(TOK, u, A.BinOp(TOK, ch, a, b))
        for u2 in UN:
            yield A.UnOp(TOK, u, A.UnOp(TOK, u2, a))


def c11_trees_three():
    """all trees with exactly three operators, binary operators only plus a unary layer sample"""
    a, b, c, d = (A.Name(TOK, n) for n in "abcd")
    for o1 in BIN:
        for o2 in BIN:
            for o3 in BIN:
                B = lambda o, l, r: A.BinOp(TOK, o, l, r)  # noqa: E731
                yield B(o1, B(o2, B(o3, a, b), c), d)
                yield B(o1, B(o2, a, B(o3, b, c)), d)
                yield B(o1, B(o2, a, b), B(o3, c, d))
                yield B(o1, a, B(o2, B(o3, b, c), d))
                yield B(o1, a, B(o2, b, B(o3, c, d)))


BRACKET_OPTS = [dict(ADD_ALL_BRACKETS=x, ADD_CLOSE_BRACKETS=y, REMOVE_UNNECESSARY_CHARS=z)
                for x in (False, True) for y in (False, True) for z in (False, True)]


def eval_exp_roundtrip(st: fw.Stream, cases: list[tuple[Any, dict]]):
    """cases: (expression AST, style dict).  Oracle: refparse(format(x = e)) == abs(x = e)."""
    outs = []
    for e, sd in cases:
        ch = chunk_of_exp(e)
        want = "ok " + absast.abs_chunk(ch)
        status, out = tformat(ch, mkstyle(sd))
        desc = {"expected_tree": want[3:], "style": sd}
        st.record(desc, key=want + json.dumps(sd, sort_keys=True))
        if status != "ok":
            st.fail(f"format raised/timeout: {status} {out!r}", desc)
            continue
        outs.append((desc, want, out))
    got = refparse([o[2] for o in outs])
    for (desc, want, out), g in zip(outs, got):
        if g != want:
            desc = dict(desc, output=out, reparsed=g)
            st.fail("formatted expression re-parses to a different tree" if g.startswith("ok") else "formatted expression is not valid Lua", desc)


def run_c11(ctx: fw.Ctx) -> None:
    st = ctx.stream("parent-child-side x 8 option sets")
    small = list(c11_trees_small())
    eval_exp_roundtrip(st, [(t, o) for t in small for o in BRACKET_OPTS])
    st.exhaustive = True
    r = ctx.rng("random")
    st2 = ctx.stream("random trees up to 12 operators x option sets")
    cases = []
    for _ in range(ctx.n(1500, 20000)):
        cases.append((op_tree_random(r, r.randint(2, 12)), r.choice(BRACKET_OPTS)))
    eval_exp_roundtrip(st2, cases)
    if not ctx.quick:
        st3 = ctx.stream("all binary trees with 3 operators x 8 option sets")
        three = list(c11_trees_three())
        for o in BRACKET_OPTS:
            eval_exp_roundtrip(st3, [(t, o) for t in three])
        st3.exhaustive = True


def replay_exp(rec: dict):
    case = rec["case"]
    src = "x = " + case.get("source", "") if "source" in case else None
    return False, "replay: re-run the check with the same VERIF_SEED; case: " + json.dumps(case)[:2000]


register(
    "C11",
    run=run_c11,
    modules=["Tumfl.Props.C11"],
    obligations=["Tumfl.Props.C11_roundtrip", "Tumfl.Props.C11_precOK", "Tumfl.Inst.brackets_sound_all"],
    extractors=["Brackets"],
    tie_names=["T1:Brackets (bracket table re-extracted through visit_BinOp/visit_UnOp, 9568 entries, self-tested)"],
    rule="operator trees built as tumfl ASTs, formatted under a style, re-read by the Lean Spec parser and compared with the tree; "
         "distinct = distinct (tree, options) pairs; every case has >= 2 operators",
    partial_hypotheses=["atoms are opaque: the theorem is about operator skeletons; that emitted pieces equal `yld (par d t)` is checked by the T2 stream, not proved"],
    replay=replay_exp,
)


# =========================================================================== program streams (C01 C02 C03 C08 C15)
STAT_FORMS = [
    ";", "x = 1", "a, b.c = f(), 2", "f(x)", "a:m(1)", "f'lit'", "f{1}", "(f or g)(1)", "(a).b = 1",
    "('s'):rep(2)", "::lbl::", "break", "goto lbl", "do local z end", "while a do b = 1 end",
    "repeat local z = 1 until z", "if a then b = 1 elseif c then d = 2 else e = 3 end",
    "for i = 1, 2 do end", "for i = 1, 10, 2 do f(i) end", "for k, v in pairs(t) do end",
    "function n.a.b:c(p, ...) return p end", "function g() end", "local function h(...) return ... end",
    "local p <const>, q <close> = 1, nil", "local r", "x = function() return 1 end", "x = {1, a = 2, [3] = 4; 5}",
    "x = a .. b .. 1", "x = -y ^ -2", "x = not (a == b)", "x = #t + 1", "x = 1 .. 2", "x = t[ [[k]] ]",
]
RETURN_FORMS = ["return", "return 1", "return a, b", "return f(x)", "return ...", "return;", "return 1;"]

OPERANDS = ["a", "_", "_ENV", "e", "E1", "x1", "1", "1.5", "0x1", "0xe", "0xA.8p1", "1e5", "3E+2", ".5", "0x10p-1",
            "'s'", "[[s]]", "...", "nil", "true", "{}", "f()", "a.b", "a[1]", "(a)", "function() end", "-a", "not a",
            "#a", "~a", "- -a", "a.e", "f'x'", "a:b()", "2^-3", "[==[]]]==]", "'\\n'", "0", "9223372036854775807",
            "9223372036854775808", "0xffffffffffffffff", "0x7fffffffffffffff1"]
BINOPS_SRC = ["or", "and", "<", ">", "<=", ">=", "~=", "==", "|", "~", "&", "<<", ">>", "..", "+", "-", "*", "/", "//", "%", "^"]


def adjacency_programs():
    for A_ in OPERANDS:
        for o in BINOPS_SRC:
            for B_ in OPERANDS:
                yield f"x = {A_} {o} {B_}"


def statement_pair_programs():
    for s1 in STAT_FORMS:
        for s2 in STAT_FORMS:
            sep = " ; " if s2.startswith("(") else "\n"
            if s1 in ("break", "goto lbl") and False:
                continue
            yield f"{s1}{sep}{s2}"
    for s1 in STAT_FORMS:
        for r in RETURN_FORMS:
            yield f"{s1}\n{r}"
    # every statement form nested in every block-carrying form
    wrappers = ["do {} end", "while c do {} end", "repeat {} until c", "if c then {} end", "if c then else {} end",
                "if c then elseif d then {} end", "for i = 1, 2 do {} end", "for k in p do {} end",
                "function w() {} end", "local function w() {} end", "x = function() {} end", "function t.a:w() {} end"]
    for w in wrappers:
        for s in STAT_FORMS + RETURN_FORMS:
            yield w.replace("{}", s)


def corpus_files() -> list[tuple[str, str]]:
    import glob
    out = []
    for f in sorted(glob.glob("/repo/lua-tests/*.lua") + glob.glob("/repo/test/test_files/*.lua")
                    + glob.glob("/repo/extensive_testing/*.lua")):
        try:
            out.append((f, open(f, encoding="utf-8", newline="").read()))
        except UnicodeDecodeError:
            continue
    return out


def random_programs(ctx: fw.Ctx, stream: str, n: int, depth_choices=(1, 2, 2, 3, 4), **cfg) -> list[str]:
    r = ctx.rng(stream)
    out = []
    for _ in range(n):
        c = gen.Cfg(max_depth=r.choice(depth_choices), max_stats=r.choice([2, 3, 4]), **cfg)
        out.append(gen.program(r, c))
    return out


def eval_programs(ctx: fw.Ctx, st: fw.Stream, srcs: list[str], styles: list[dict | None], *, check_tree: bool,
                  check_format: bool, fixpoint: bool = False, must_be_valid: bool = True, label: str = "") -> None:
    """The shared oracle.  For every source: the Spec must accept it (else generator bug); tumfl must parse it;
    (check_tree) abs(tumfl AST) == norm(Spec tree); (check_format) for every style, format() must return text that
    the Spec parses to the same normalised tree; (fixpoint) format(parse(out)) == out."""
    refs = refparse(srcs)
    todo = []
    for src, ref in zip(srcs, refs):
        if not ref.startswith("ok"):
            if must_be_valid:
                raise fw.InfraError(f"generator produced a chunk the Spec rejects: {src!r} -> {ref}")
            continue
        status, ast = tparse(src)
        case = {"kind": "program", "source": src}
        st.record(case, key=src)
        if status != "ok":
            st.fail(f"valid chunk not parsed: {status}: {ast}", case)
            continue
        if check_tree:
            try:
                mine = "ok " + absast.abs_chunk(ast)
            except absast.AbsError as e:
                st.fail(f"AST has an unexpected shape: {e}", case)
                continue
            if mine != ref:
                st.fail("parser built a different tree than the Lua grammar assigns", dict(case, expected=ref[:3000], got=mine[:3000]))
                continue
        if check_format:
            for sd in styles:
                sty = None if sd is None else (MinifiedStyle if sd == "min" else mkstyle(sd))
                fstatus, out = tformat(ast, sty)
                fcase = dict(case, style=sd)
                if fstatus != "ok":
                    st.fail(f"format raised or did not terminate: {fstatus} {out!r}", fcase)
                    continue
                todo.append((fcase, ref, out, sty))
    outs = refparse([t[2] for t in todo])
    for (fcase, ref, out, sty), got in zip(todo, outs):
        if got != ref:
            st.fail("formatted text denotes a different program" if got.startswith("ok") else "formatted text is not valid Lua",
                    dict(fcase, output=out[:4000], reparsed=got[:3000], expected=ref[:3000]))
            continue
        if fixpoint:
            s2, ast2 = tparse(out)
            if s2 != "ok":
                st.fail(f"tumfl cannot parse its own output: {s2}: {ast2}", dict(fcase, output=out[:4000]))
                continue
            f2, out2 = tformat(ast2, sty)
            if f2 != "ok" or out2 != out:
                st.fail("formatting the formatted text again changes it", dict(fcase, output=out[:4000], second=str(out2)[:4000]))


def classify_k(f: fw.Failure):
    return f.case.get("known") if isinstance(f.case, dict) else None


K_WITNESSES = {
    "K1": ["return (f())", "x = (f())", "g((...))", "t = {(f())}", "local a, b = (f())", "return a, (g:m())"],
    "K2": ["x = 5.", "x = 0x5.", "x = 3. .. 'a'"],
    "K3": ["x = 0x.8", "x = 0X.1p4"],
}


def run_witnesses(ctx: fw.Ctx, kids: list[str], styles: list, check_tree: bool = False, check_format: bool = True) -> None:
    """Known findings: each listed witness must still fail on the real code; the failures are tagged so that
    finish() reports them as KNOWN-FINDING and not as violations."""
    known = fw.load_known()
    for kid in kids:
        entry = next((k for k in known.get("findings", []) if k["id"] == kid and k["property"] == ctx.prop), None)
        if entry is None:
            continue
        st = ctx.stream(f"known-finding witnesses {kid}")
        eval_programs(ctx, st, entry["inputs"], styles, check_tree=check_tree, check_format=check_format)
        fails = len(st.failures)
        entry["_witness_fails"] = f"{fails} failing of {len(entry['inputs'])} listed inputs"
        for f in st.failures:
            f.case["known"] = kid
        # write back into the loaded structure for finish()
        fw._KNOWN_RUNTIME[(ctx.prop, kid)] = entry["_witness_fails"]


DEFAULT_STYLES = [None]
MIN_STYLES = ["min"]


def program_streams(ctx: fw.Ctx, styles: list, *, check_tree: bool, check_format: bool, fixpoint: bool = False,
                    n_quick: int = 400, n_thorough: int = 20000, adjacency: float = 0.0, pairs: bool = True) -> None:
    st = ctx.stream("G1 random programs")
    eval_programs(ctx, st, random_programs(ctx, "g1", ctx.n(n_quick, n_thorough)), styles,
                  check_tree=check_tree, check_format=check_format, fixpoint=fixpoint)
    if not ctx.quick:
        st = ctx.stream("G1 deep programs (depth up to 7)")
        eval_programs(ctx, st, random_programs(ctx, "g1deep", 600, depth_choices=(5, 6, 7)), styles,
                      check_tree=check_tree, check_format=check_format, fixpoint=fixpoint)
    if pairs:
        st = ctx.stream("G2 ordered pairs of statement forms, statement forms nested in block forms")
        progs = list(statement_pair_programs())
        eval_programs(ctx, st, progs, styles, check_tree=check_tree, check_format=check_format, fixpoint=fixpoint)
        st.exhaustive = True
    if adjacency > 0:
        st = ctx.stream("G2 operand x operator x operand adjacency")
        progs = list(adjacency_programs())
        if adjacency < 1:
            r = ctx.rng("adjacency")
            progs = r.sample(progs, int(len(progs) * adjacency))
        else:
            st.exhaustive = True
        eval_programs(ctx, st, progs, styles, check_tree=check_tree, check_format=check_format, fixpoint=fixpoint)
    st = ctx.stream("G7 corpus (lua-tests, test_files) without known-finding features")
    files = corpus_files()
    feats = drive([("features", hx(s)) for _, s in files])
    keep = [(f, s) for (f, s), ft in zip(files, feats) if ft == "ok k1=false k2=false k3=false bytes=false cr=false"]
    st.notes["files"] = len(files)
    st.notes["files_without_known_finding_features"] = len(keep)
    if ctx.quick:
        keep = [k for k in keep if len(k[1]) < 40000]
    eval_programs(ctx, st, [s for _, s in keep], styles, check_tree=check_tree, check_format=check_format,
                  fixpoint=fixpoint, must_be_valid=False)


# =========================================================================== C01 C02 C03 C08 C15
def style_space(r: random.Random) -> dict:
    return dict(
        STATEMENT_SEPARATOR=r.choice(["\n", ";"]),
        INDENTATION=r.choice(["\t", "", "  ", "    ", " \t"]),
        ARGUMENT_SEPARATOR=r.choice([", ", ","]),
        INCLUDE_COMMENTS=r.random() < 0.5,
        COMMENT_SEP=r.choice([" ", "", "  "]),
        USE_SINGLE_QUOTE=r.random() < 0.5,
        USE_CALL_SHORTHAND=r.random() < 0.5,
        REMOVE_UNNECESSARY_CHARS=r.random() < 0.5,
        ADD_ALL_BRACKETS=r.random() < 0.3,
        ADD_CLOSE_BRACKETS=r.random() < 0.5,
        SPACE_IN_TABLE=r.random() < 0.5,
        NEWLINE_LIMIT=r.choice([0, 1, 4]),
        LINE_WIDTH=r.choice([0, 1, 7, 20, 40, 120]),
        BLOCK_SPACER=r.choice([0, 1, 5]),
        KEEP_SEMICOLON=r.random() < 0.5,
    )


BOOL_FIELDS = ["INCLUDE_COMMENTS", "USE_SINGLE_QUOTE", "USE_CALL_SHORTHAND", "REMOVE_UNNECESSARY_CHARS",
               "ADD_ALL_BRACKETS", "ADD_CLOSE_BRACKETS", "SPACE_IN_TABLE", "KEEP_SEMICOLON"]


def pairwise_styles(r: random.Random) -> list[dict]:
    """A pairwise-complete covering set over all option values (greedy), about 40-60 styles."""
    domains = {
        "STATEMENT_SEPARATOR": ["\n", ";"], "INDENTATION": ["\t", "", "  ", "    "], "ARGUMENT_SEPARATOR": [", ", ","],
        "COMMENT_SEP": [" ", "", "  "], "NEWLINE_LIMIT": [0, 1, 4], "LINE_WIDTH": [0, 1, 7, 20, 120],
        "BLOCK_SPACER": [0, 1, 5], **{b: [False, True] for b in BOOL_FIELDS},
    }
    keys = list(domains)
    need = {(a, va, b, vb) for i, a in enumerate(keys) for b in keys[i + 1:] for va in domains[a] for vb in domains[b]}
    out = []
    while need:
        best, best_gain = None, -1
        for _ in range(30):
            cand = {k: r.choice(v) for k, v in domains.items()}
            gain = sum(1 for (a, va, b, vb) in need if cand[a] == va and cand[b] == vb)
            if gain > best_gain:
                best, best_gain = cand, gain
        if best_gain == 0:
            a, va, b, vb = next(iter(need))
            best[a], best[b] = va, vb
        need = {(a, va, b, vb) for (a, va, b, vb) in need if not (best[a] == va and best[b] == vb)}
        out.append(best)
    return out


def run_c01(ctx: fw.Ctx) -> None:
    program_streams(ctx, DEFAULT_STYLES, check_tree=False, check_format=True, adjacency=0.05 if ctx.quick else 1.0)
    run_witnesses(ctx, ["K1", "K2", "K3"], DEFAULT_STYLES)


def run_c02(ctx: fw.Ctx) -> None:
    program_streams(ctx, MIN_STYLES, check_tree=False, check_format=True, adjacency=0.25 if ctx.quick else 1.0)
    run_witnesses(ctx, ["K1", "K2", "K3"], MIN_STYLES)


def run_c03(ctx: fw.Ctx) -> None:
    program_streams(ctx, [], check_tree=True, check_format=False, adjacency=0.1 if ctx.quick else 1.0,
                    n_quick=600)
    st = ctx.stream("G2 binary x binary x unary operator combinations (source level)")
    progs = []
    for o1 in BINOPS_SRC:
        for o2 in BINOPS_SRC:
            progs.append(f"x = a {o1} b {o2} c")
            if not ctx.quick:
                for u in ["-", "not ", "#", "~"]:
                    progs += [f"x = {u}a {o1} b {o2} c", f"x = a {o1} {u}b {o2} c", f"x = a {o1} b {o2} {u}c"]
    for u in ["-", "not ", "#", "~"]:
        for o1 in BINOPS_SRC:
            progs += [f"x = {u}a {o1} b", f"x = a {o1} {u}b", f"x = {u} {u}a {o1} b"]
    eval_programs(ctx, st, progs, [], check_tree=True, check_format=False)
    st.exhaustive = True
    run_witnesses(ctx, ["K1", "K2"], [], check_tree=True, check_format=False)


def run_c08(ctx: fw.Ctx) -> None:
    r = ctx.rng("styles")
    styles = pairwise_styles(r)
    st = ctx.stream("G4 pairwise-complete style set x random programs")
    st.notes["styles"] = len(styles)
    progs = random_programs(ctx, "g1", ctx.n(30, 200))
    progs += r.sample(list(statement_pair_programs()), ctx.n(40, 400))
    # deep indentation and long strings stress the wrapping code
    progs += ["do do do do x = 'aaaa bbbb cccc \\\\ dddd \\n eeee \\u{1f600} ffff gggg hhhh iiii' end end end end",
              "f(function() return a, b end, {1, 2, {3, 4, function() return 'x', [[y]] end}}, t[function() return a, b end])",
              "-- [[ c1\n--[==[ c2 ]] ]==]\nx = 1 -- c3\n--[[ multi\nline ]] y = 2"]
    eval_programs(ctx, st, progs, styles, check_tree=False, check_format=True)
    if not ctx.quick:
        st2 = ctx.stream("all 256 boolean combinations x fixed program set")
        fixed = random_programs(ctx, "fixed", 12) + progs[-3:]
        combos = []
        for bits in itertools.product([False, True], repeat=8):
            d = style_space(r)
            d.update(dict(zip(BOOL_FIELDS, bits)))
            combos.append(d)
        eval_programs(ctx, st2, fixed, combos, check_tree=False, check_format=True)
    st3 = ctx.stream("random styles x random programs")
    progs3 = random_programs(ctx, "g1b", ctx.n(150, 3000))
    for p in progs3:
        eval_programs(ctx, st3, [p], [style_space(r) for _ in range(2)], check_tree=False, check_format=True)
    run_witnesses(ctx, ["K1", "K2", "K3"], [style_space(r)])


def run_c15(ctx: fw.Ctx) -> None:
    program_streams(ctx, MIN_STYLES, check_tree=False, check_format=True, fixpoint=True,
                    adjacency=0.1 if ctx.quick else 1.0)


PROG_RULE = ("programs: random derivations of the manual's grammar rendered with random layout and comments (validated by the Lean Spec), "
             "all ordered pairs of statement forms, statement forms nested in block forms, operand x operator x operand adjacency, corpus files; "
             "oracle: Lean Spec parse of the source vs Lean Spec parse of tumfl's output (normalised); distinct = distinct source texts")

for pid, runner, extra in [
    ("C01", run_c01, "default style"),
    ("C02", run_c02, "minified style"),
    ("C03", run_c03, "tree built by tumfl's parser (through abs) vs tree of the Lean Spec parser"),
    ("C08", run_c08, "pairwise-complete style covering array and random styles"),
    ("C15", run_c15, "minified output parsed and minified again must be byte-identical"),
]:
    register(
        pid,
        run=runner,
        modules=["Tumfl.Props.C11"],
        obligations=["Tumfl.Props.C11_roundtrip", "Tumfl.Inst.brackets_sound_all"],
        extractors=["Brackets"],
        tie_names=["T1:Brackets"],
        rule=PROG_RULE + "; " + extra,
        classify=classify_k,
        partial_hypotheses=["only the operator-bracketing core is proved so far; the remaining composition (lexer, statement parser, emit, layout) is covered by the oracle streams"],
    )
NOT_YET: dict[str, str] = {}
