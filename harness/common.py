"""Shared plumbing: paths, the Lean driver, running tumfl quietly, evidence, replays."""
from __future__ import annotations

import contextlib
import io
import json
import os
import subprocess
import sys
import time
from pathlib import Path

VERIF = Path(__file__).resolve().parent.parent
REPO = Path(os.environ.get("TUMFL_REPO", "/repo"))
LEAN = VERIF / "lean"
DRIVER = LEAN / ".lake" / "build" / "bin" / "driver"
EVIDENCE = VERIF / "evidence"
REPLAYS = VERIF / "replays"

os.environ.setdefault("TUMFL_VERIF", "1")
if hasattr(sys, "set_int_max_str_digits"):
    sys.set_int_max_str_digits(0)   # exact values of numerals like 1e5000 are long integers
if str(REPO) not in sys.path:
    sys.path.insert(0, str(REPO))


def hx(text: str) -> str:
    return text.encode("utf-8").hex()


def unhx(h: str) -> str:
    return bytes.fromhex(h).decode("utf-8")


class DriverError(Exception):
    pass


def drive(requests: list[tuple[str, ...]], chunk: int = 20000) -> list[str]:
    """Send requests (op, arg, ...) to the Lean driver; one answer line per request."""
    if not requests:
        return []
    out: list[str] = []
    for i in range(0, len(requests), chunk):
        part = requests[i : i + chunk]
        payload = "".join("\t".join(r) + "\n" for r in part)
        proc = subprocess.run(
            [str(DRIVER)], input=payload, capture_output=True, text=True, check=False
        )
        lines = proc.stdout.split("\n")
        if lines and lines[-1] == "":
            lines.pop()
        if proc.returncode != 0 or len(lines) != len(part):
            raise DriverError(
                f"driver failed rc={proc.returncode} got {len(lines)} of {len(part)} lines; stderr={proc.stderr[:400]}"
            )
        out.extend(lines)
    return out


@contextlib.contextmanager
def quiet():
    """tumfl prints diagnostics to stderr before raising; keep the check output clean."""
    old = sys.stderr
    sys.stderr = io.StringIO()
    try:
        yield
    finally:
        sys.stderr = old


class Timer:
    def __init__(self) -> None:
        self.t0 = time.time()

    def s(self) -> float:
        return round(time.time() - self.t0, 3)


def write_json(path: Path, obj) -> None:
    path.parent.mkdir(parents=True, exist_ok=True)
    tmp = path.with_suffix(path.suffix + ".tmp")
    tmp.write_text(json.dumps(obj, indent=1, ensure_ascii=True, default=str))
    tmp.replace(path)
