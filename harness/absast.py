"""abs: tumfl AST -> the canonical S-expression of the normalised Spec tree.

The text produced here is compared with the Lean driver's `refparse` answer (Spec.showBlock of
Spec.normBlock).  tumfl's AST has no parenthesis node, keeps empty statements as Semicolon nodes
and nests `elseif` as an If in the `false` slot; abs maps all of that to the Spec's shape.
"""
from __future__ import annotations

from fractions import Fraction
from math import gcd

from tumfl.AST import (
    Assign, BinOp, Block, Boolean, Break, Chunk, ExpFunctionCall, ExpFunctionDefinition,
    ExplicitTableField, ExpMethodInvocation, FunctionCall, FunctionDefinition, Goto, If, Index,
    IterativeFor, Label, LocalAssign, LocalFunctionDefinition, MethodInvocation, Name, NamedIndex,
    NamedTableField, Nil, Number, NumberedTableField, NumericFor, Repeat, Semicolon, String, Table,
    UnOp, Vararg, While,
)


def par(*xs: str) -> str:
    return "(" + " ".join(xs) + ")"


def numval(is_hex, ip, fp, ex, fo) -> str:
    """Kind and exact value of tumfl's numeral tuple (missing parts read as empty)."""
    ipd = ip or ""
    if not fp and not ex and not fo:
        if is_hex:
            return f"I{int(ipd or '0', 16) % 2**64}"
        v = int(ipd or "0")
        return f"I{v}" if v < 2**63 else f"F{v}/1"
    f = fp or ""
    base = 16 if is_hex else 10
    m = int((ipd + f) or "0", base)
    e = int((fo if is_hex else ex) or "0")
    if is_hex:
        b, e = 2, e - 4 * len(f)
    else:
        b, e = 10, e - len(f)
    if m == 0:
        return "F0/1"
    if e >= 0:
        return f"F{m * b**e}/1"
    d = b ** (-e)
    g = gcd(m, d)
    return f"F{m // g}/{d // g}"


def units(s: str) -> list[str]:
    return [format(ord(c), "x") for c in s]


class AbsError(Exception):
    pass


def exp(e) -> str:
    if isinstance(e, Nil):
        return "nil"
    if isinstance(e, Boolean):
        return "true" if e.value else "false"
    if isinstance(e, Vararg):
        return "..."
    if isinstance(e, Number):
        return par("num", numval(e.is_hex, e.integer_part, e.fractional_part, e.exponent, e.float_offset))
    if isinstance(e, String):
        return par("str", *units(e.value))
    if isinstance(e, ExpFunctionDefinition):
        return par("func", *params(e.parameters), block(e.body))
    if isinstance(e, Table):
        return par("table", *[field(f) for f in e.fields])
    if isinstance(e, BinOp):
        return par("bin", e.op.value, exp(e.left), exp(e.right))
    if isinstance(e, UnOp):
        return par("un", e.op.value, exp(e.right))
    if isinstance(e, Name):
        return par("name", e.variable_name)
    if isinstance(e, Index):
        return par("index", exp(e.lhs), exp(e.variable_name))
    if isinstance(e, NamedIndex):
        return par("dot", exp(e.lhs), e.variable_name.variable_name)
    if isinstance(e, ExpFunctionCall):
        return par("call", exp(e.function), *[exp(a) for a in e.arguments])
    if isinstance(e, ExpMethodInvocation):
        return par("mcall", exp(e.function), e.method.variable_name, *[exp(a) for a in e.arguments])
    raise AbsError(f"not an expression: {type(e).__name__}")


def params(ps) -> tuple[str, str]:
    names = [p.variable_name for p in ps if isinstance(p, Name)]
    va = any(isinstance(p, Vararg) for p in ps)
    if va and not isinstance(ps[-1], Vararg):
        raise AbsError("vararg not last")
    return par(*names), ("va" if va else "nova")


def field(f) -> str:
    if isinstance(f, NumberedTableField):
        return par("pos", exp(f.value))
    if isinstance(f, NamedTableField):
        return par("named", f.field_name.variable_name, exp(f.value))
    if isinstance(f, ExplicitTableField):
        return par("keyed", exp(f.at), exp(f.value))
    raise AbsError(f"not a field: {type(f).__name__}")


def stat(s) -> list[str]:
    if isinstance(s, Semicolon):
        return []
    if isinstance(s, Chunk):
        # an inlined file at statement level: its statements stand in place of the call
        out = [x for st in s.statements for x in stat(st)]
        if s.returns is not None:
            out.append(par("return!", *[exp(e) for e in s.returns]))
        return out
    if isinstance(s, Assign):
        return [par("assign", par(*[exp(t) for t in s.targets]), par(*[exp(e) for e in s.expressions]))]
    if isinstance(s, FunctionCall):
        return [par("callstat", par("call", exp(s.function), *[exp(a) for a in s.arguments]))]
    if isinstance(s, MethodInvocation):
        return [par("callstat", par("mcall", exp(s.function), s.method.variable_name, *[exp(a) for a in s.arguments]))]
    if isinstance(s, Label):
        return [par("label", s.label_name.variable_name)]
    if isinstance(s, Break):
        return ["break"]
    if isinstance(s, Goto):
        return [par("goto", s.label_name.variable_name)]
    if isinstance(s, While):
        return [par("while", exp(s.condition), block(s.body))]
    if isinstance(s, Repeat):
        return [par("repeat", block(s.body), exp(s.condition))]
    if isinstance(s, If):
        parts = ["if", exp(s.test), block(s.true)]
        cur = s
        while isinstance(cur.false, If):
            cur = cur.false
            parts.append(par("elseif", exp(cur.test), block(cur.true)))
        if cur.false is not None:
            parts.append(par("else", block(cur.false)))
        return [par(*parts)]
    if isinstance(s, NumericFor):
        return [par("fornum", s.variable_name.variable_name, exp(s.start), exp(s.stop),
                    exp(s.step) if s.step is not None else "-", block(s.body))]
    if isinstance(s, IterativeFor):
        return [par("forin", par(*[n.variable_name for n in s.namelist]),
                    par(*[exp(e) for e in s.explist]), block(s.body))]
    if isinstance(s, FunctionDefinition):
        return [par("function", par(*[n.variable_name for n in s.names]),
                    s.method_name.variable_name if s.method_name else "-",
                    *params(s.parameters), block(s.body))]
    if isinstance(s, LocalFunctionDefinition):
        return [par("localfunction", s.function_name.variable_name, *params(s.parameters), block(s.body))]
    if isinstance(s, LocalAssign):
        names = [par(n.name.variable_name, n.attribute.variable_name if n.attribute else "-")
                 for n in s.variable_names]
        return [par("local", par(*names), par(*[exp(e) for e in (s.expressions or [])]))]
    if isinstance(s, Block):
        return [par("do", block(s))]
    raise AbsError(f"not a statement: {type(s).__name__}")


def block(b) -> str:
    if not isinstance(b, Block):
        raise AbsError(f"not a block: {type(b).__name__}")
    parts = ["block"]
    for s in b.statements:
        parts.extend(stat(s))
    if b.returns is not None:
        parts.append(par("return", *[exp(e) for e in b.returns]))
    return par(*parts)


def abs_chunk(ast) -> str:
    return block(ast)
