"""Regenerate the table of seeded changes in DESIGN.md (between the markers) from seeded/*/meta.json."""
import glob
import json
import re
from pathlib import Path

VERIF = Path(__file__).resolve().parent.parent
rows = ["| id | change | caught by (quick tier) |", "|---|---|---|"]
for f in sorted(glob.glob(str(VERIF / "seeded" / "*" / "meta.json"))):
    m = json.loads(Path(f).read_text())
    ident = Path(f).parent.name
    summ = re.sub(r"\s+", " ", m.get("summary", "")).replace("|", "\\|")[:230]
    rows.append(f"| {ident} | {summ} | {', '.join(m.get('caught_by', []))} |")
text = (VERIF / "DESIGN.md").read_text()
a, b = "<!-- seeded-table-begin -->", "<!-- seeded-table-end -->"
new = a + "\n" + "\n".join(rows) + "\n" + b
if a in text:
    text = text[: text.index(a)] + new + text[text.index(b) + len(b):]
else:
    raise SystemExit("markers missing")
(VERIF / "DESIGN.md").write_text(text)
print(len(rows) - 2, "rows")
