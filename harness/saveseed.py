"""Confirm seeded changes with seedtest.py and store them under /verif/seeded/<prop>-<variant>/."""
import json
import shutil
import subprocess
import sys
from pathlib import Path

VERIF = Path(__file__).resolve().parent.parent
for src in sys.argv[1:]:
    src = Path(src)
    meta = json.loads((src / "meta.json").read_text())
    extra = {"C01": ["C06"], "C09": ["C05"], "C05": ["C20", "C09"], "C07": ["C02"], "C02": ["C15"], "C04": ["C12"], "C16": ["C20"],
             "C13": ["C20"], "C03": ["C10"], "C10": ["C03"], "C08": ["C01"], "C06": ["C01", "C08"], "C11": ["C03"], "C16": ["C09"], "C19": ["C09"]}.get(meta["property"], [])
    r = subprocess.run([sys.executable, str(VERIF / "harness" / "seedtest.py"), str(src), *extra], capture_output=True, text=True)
    try:
        res = json.loads(r.stdout)
    except Exception:  # noqa: BLE001
        print("FAILED", src, r.stdout[-500:], r.stderr[-500:])
        continue
    ok = res.get("demo_clean_rc") == 0 and res.get("demo_patched_rc") not in (0, None) and "121 passed" in res.get("tests", "")
    dst = VERIF / "seeded" / f"{meta['property']}-{meta.get('variant', src.name)}"
    if not ok:
        print("NOT CONFIRMED", src, res.get("demo_clean_rc"), res.get("demo_patched_rc"), res.get("tests"))
        continue
    dst.mkdir(parents=True, exist_ok=True)
    shutil.copy(src / "patch.diff", dst / "patch.diff")
    shutil.copy(src / "demo.py", dst / "demo.py")
    meta["confirmed"] = {"tests_with_patch": res["tests"], "demo_exit_clean": res["demo_clean_rc"], "demo_exit_patched": res["demo_patched_rc"],
                         "ran": "git -C /repo apply patch.diff; pytest; PYTHONPATH=/repo python demo.py; ./check <prop>; git -C /repo checkout -- ."}
    meta["checks"] = {p: {"exit": c["rc"], "what": c.get("what"), "violation_line": c.get("violation")} for p, c in res["checks"].items()}
    meta["caught_by"] = [p for p, c in res["checks"].items() if c["rc"] == 1]
    (dst / "meta.json").write_text(json.dumps(meta, indent=1))
    print(dst.name, "caught by", meta["caught_by"])
