#!/bin/bash
# run every check (default tier quick) on the current tree; prints one line per check
cd "$(dirname "$0")"
for p in C01 C02 C03 C04 C05 C06 C07 C08 C09 C10 C11 C12 C13 C14 C15 C16 C17 C18 C19 C20; do
  ./check $p "$@" 2>&1 | grep -v "^KNOWN-FINDING\|^note:" | tail -1
done
