#!/bin/bash
# Offline setup: regenerate Gen from /repo, build the Lean library and the driver.
set -e
cd "$(dirname "$0")"
/venv/bin/python harness/extract.py > /dev/null
cd lean
lake build Tumfl driver
